#!/usr/bin/env python3
"""Build the verification harness inside the repository's packages without
touching /repo: -modfile (go.mod + rapid) and -overlay (mask repo tests, map
harness files in)."""
import fcntl, glob, json, os, shutil, subprocess, sys, hashlib

VERIF = os.path.dirname(os.path.abspath(__file__))
REPO = os.environ.get("VERIF_REPO", "/repo")
BUILD = os.environ.get("VERIF_BUILD", os.path.join(VERIF, "build"))
GO = "go1.26.8"

def goenv():
    env = dict(os.environ)
    env.update({
        "GOFLAGS": "-mod=mod", "GOPROXY": "off", "GOSUMDB": "off",
        "GOTOOLCHAIN": "local", "GONOSUMDB": "*", "GONOSUMCHECK": "1",
        "GOCACHE": os.environ.get("GOCACHE", os.path.join(os.path.expanduser("~"), ".cache", "go-build")),
    })
    return env

def prepare():
    os.makedirs(BUILD, exist_ok=True)
    mod = open(os.path.join(REPO, "go.mod")).read()
    if "pgregory.net/rapid" not in mod:
        mod = mod.rstrip("\n") + "\n\nrequire pgregory.net/rapid v1.3.0\n"
    modp = os.path.join(BUILD, "go.mod")
    if not os.path.exists(modp) or open(modp).read() != mod:
        open(modp, "w").write(mod)
    sump = os.path.join(BUILD, "go.sum")
    base = open(os.path.join(REPO, "go.sum")).read()
    extra = open(os.path.join(VERIF, "harness", "go.sum.extra")).read() if os.path.exists(os.path.join(VERIF, "harness", "go.sum.extra")) else ""
    want = base + extra
    if not os.path.exists(sump) or open(sump).read() != want:
        open(sump, "w").write(want)
    repl = {}
    for pkg, sub in (("raft", ""), ("log", "log")):
        d = os.path.join(REPO, sub)
        for f in glob.glob(os.path.join(d, "*_test.go")):
            repl[f] = ""
        for f in sorted(glob.glob(os.path.join(VERIF, "harness", pkg, "*.go"))):
            name = "zz_verif_" + os.path.basename(f)[:-3] + "_test.go"
            repl[os.path.join(d, name)] = f
    ov = os.path.join(BUILD, "overlay.json")
    open(ov, "w").write(json.dumps({"Replace": repl}, indent=1))
    return modp, ov

def build(pkg="raft", race=False, extra_overlay=None, out=None):
    """returns (path, None) or (None, error text)"""
    os.makedirs(BUILD, exist_ok=True)
    lock = open(os.path.join(BUILD, ".lock"), "w")
    fcntl.flock(lock, fcntl.LOCK_EX)
    try:
        modp, ov = prepare()
        if extra_overlay:
            o = json.load(open(ov))
            o["Replace"].update(extra_overlay)
            ov = os.path.join(BUILD, "overlay-%s.json" % hashlib.sha1(json.dumps(extra_overlay, sort_keys=True).encode()).hexdigest()[:10])
            open(ov, "w").write(json.dumps(o, indent=1))
        os.makedirs(os.path.join(BUILD, "bin"), exist_ok=True)
        name = pkg + ("-race" if race else "") + ".test"
        final = out or os.path.join(BUILD, "bin", name)
        tmp = final + ".tmp%d" % os.getpid()
        target = "." if pkg == "raft" else "./log"
        cmd = [GO, "test", "-c", "-tags", "verif", "-vet=off", "-modfile=" + modp, "-overlay=" + ov, "-o", tmp]
        if race:
            cmd.append("-race")
        cmd.append(target)
        p = subprocess.run(cmd, cwd=REPO, env=goenv(), capture_output=True, text=True)
        if p.returncode != 0:
            try: os.unlink(tmp)
            except OSError: pass
            return None, p.stdout + p.stderr
        os.replace(tmp, final)
        return final, None
    finally:
        fcntl.flock(lock, fcntl.LOCK_UN)
        lock.close()

if __name__ == "__main__":
    pkg = sys.argv[1] if len(sys.argv) > 1 else "raft"
    race = "--race" in sys.argv
    path, err = build(pkg, race)
    if err:
        sys.stderr.write(err)
        sys.exit(2)
    print(path)
