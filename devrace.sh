#!/bin/bash
# devrace.sh <TestName> <checks> <seed>: run the -race binary in black-box mode
T=$1; N=${2:-100}; S=${3:-5}
D=/verif/build/run/devrace-$T
mkdir -p $D/fails
python3 /verif/vbuild.py raft --race >/dev/null || exit 2
rm -rf $D/out.jsonl $D/fails $D/testdata; mkdir -p $D/fails
cd $D
VERIF_BLACKBOX=1 VERIF_OUT=$D/out.jsonl VERIF_CUR=$D/cur.json VERIF_FAILDIR=$D/fails GOMAXPROCS=${P:-4} timeout ${TMO:-300} /verif/build/bin/raft-race.test -test.run "^$T\$" -rapid.checks=$N -rapid.seed=$S -test.timeout ${TMO:-300}s > $D/log.txt 2>&1
echo "exit $? cases $(wc -l < $D/out.jsonl)"
grep -v "^\s" $D/log.txt | head -${HEAD:-60}
