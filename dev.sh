#!/bin/bash
# dev helper: dev.sh <TestName> <checks> <seed> [extra args]
# runs the compiled raft test binary in a scratch dir
set -u
T=$1; N=${2:-50}; S=${3:-7}; shift 3 || true
PKG=${PKG:-raft}
D=/verif/build/run/dev-$T
mkdir -p $D/fails
python3 /verif/vbuild.py $PKG >/dev/null || exit 2
cd $D
rm -rf out.jsonl cur.json fails/* testdata
VERIF_OUT=$D/out.jsonl VERIF_CUR=$D/cur.json VERIF_FAILDIR=$D/fails timeout ${TMO:-300} /verif/build/bin/$PKG.test -test.run "^$T\$" -rapid.checks=$N -rapid.seed=$S -test.timeout ${TMO:-300}s "$@" 2>&1 | tail -${TAIL:-40}
echo "--- cases: $(wc -l < out.jsonl 2>/dev/null) fails: $(ls fails | wc -l)"
