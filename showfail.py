#!/usr/bin/env python3
import json,sys,glob,collections
d=sys.argv[1]
by=collections.defaultdict(list)
for f in glob.glob(d+'/*.json'):
    j=json.load(open(f)); by[j['key']].append((len(j['actions']),f,j))
for k,v in sorted(by.items()):
    v.sort(key=lambda x:x[0]); n,f,j=v[0]
    print("==",k,"count",len(v),"smallest",n,f)
    print("   oracle",j['oracle'],"deciding",j['deciding'],"msg:",j['msg'])
    if len(sys.argv)>2:
        print("   "+" | ".join(("%s"%a) for a in j['actions']))
