#!/usr/bin/env python3
"""Regenerates MANIFEST.json from checks.py (single source of truth for commands)."""
import json, os, subprocess, sys
sys.path.insert(0, os.path.dirname(os.path.abspath(__file__)))
from checks import CHECKS

props = [json.loads(l) for l in open(os.path.join(os.path.dirname(__file__), "properties.jsonl"))]

TEXT = {
 "C01": ("exploration", "Generated-schedule search on the real nodes (virtual time, harness-owned network): every leadership (also transient ones, via the tracer callback) goes into a term->leader ledger, a second node for a term is a violation; additionally a node that becomes leader must have a majority of its configuration's voters whose 'vote granted' reply for that term was actually written on the wire. Evidence = cases explored, not absence.", "DESIGN.md 4/C01"),
 "C02": ("exploration", "Commit ledger index->(term,type,hash) filled from every node's commit index after every step; oracles: a new leader of a later term holds every previously committed entry (log snapshot taken inside the election callback), no node overwrites or truncates a committed entry, no index is committed with two values, every successful task's entry is committed. Schedules include a scripted Figure-8 template on 5 voters.", "DESIGN.md 4/C02, 10.2"),
 "C03": ("exploration", "Recording FSMs: after every step each state machine's content must equal the update sub-sequence of the commit ledger up to its applied index (also right after Restore); every update id commits at one index only.", "DESIGN.md 4/C03"),
 "C04": ("exploration", "(index,term)->(type,payload hash,predecessor term) ledger over every entry ever observed in any log at any step; a leader's own log must be append-only while it stays leader of a term.", "DESIGN.md 4/C04"),
 "C05": ("fault_enumeration", "The real vote handler is driven as a function over generated voter states and requests; every request is also executed with a crash before the rename and a crash after the rename (both followed by restart from that image); oracle = reference model of the term file. The vsim checks run the same vote/term oracles on real exchanges (wire monitor + persisted-vote ledger) as incidental oracles. The self vote is the real candidate.startElection, a late bootstrap the real task handler.", "DESIGN.md 4/C05, 10.6"),
 "C06": ("fault_enumeration", "Durability census at every instant a leader raises its commit index (hook on the leader's own goroutine): crash-all-now is emulated by reading every voter's directory the way a reopen would; a majority of the voters of the leader's latest configuration must hold the entry.", "DESIGN.md 4/C06"),
 "C07": ("exploration", "History checker specialised to a single log with unique commands: positions/results of successful updates, real-time order, definitive rejections never take effect, ambiguous failures at most once, reads/barriers reflect earlier accepted updates of the same leader, every read result is a committed prefix.", "DESIGN.md 4/C07"),
 "C08": ("exploration", "Generated membership request sequences; oracles at the instant a leader appends a configuration (callback on its goroutine): predecessor committed, own-term commit done, <=1 voter differs, >=1 voter; committed configuration sequence differs by <=1 voter; requests the leader has to refuse are refused; every node's adopted configuration is the newest configuration entry of its own log/snapshot (adoption, revert on truncation, rebuild on restart); C01/C02 oracles stay deciding.", "DESIGN.md 4/C08, 10.3"),
 "C09": ("exploration", "FSM-content oracle at every applied index incl. after restore/install, snapshot file content == committed prefix, restart of every node, convergence after heal, and any fault/panic in a node (replication reading compacted data shows up as SIGSEGV/nil dereference, caught by the driver).", "DESIGN.md 4/C09"),
 "C10": ("fault_enumeration", "Crash = kill at a named hook point inside storage-mutating sequences (image taken on the crashing goroutine at that instruction), restart from a copy of the image; oracles: restart succeeds, term/vote not older than reported, acknowledged entries retained, log contiguous with snapshot, convergence with C01-C04 oracles on; a restarted node whose Serve ends with a storage error has not restarted. Crash points also inside the recording state machine (half-written snapshot file).", "DESIGN.md 4/C10, 10.2"),
 "C11": ("exploration", "Election/leadership only by voters of the node's own latest configuration (checked inside the callbacks), promotions need a completed round under that leader and a caught-up log, a leader whose committed configuration excludes it is not leader at the next observation, removed-shutdown only after a committed configuration without the node; census (C06) shows non-voter acks are not counted; template: timeout-now withheld until its target has been demoted.", "DESIGN.md 4/C11, 10.2"),
 "C12": ("exploration", "Every snapshot label published on any disk is compared (hook right after the rename) with the commit ledger: index/term, data size, and configuration == newest committed configuration entry <= index; schedules park the snapshot goroutine at its first instruction while configuration entries commit.", "DESIGN.md 4/C12"),
 "C13": ("exploration", "Model-based test of package log against (prev, [][]byte) with boundary-aimed indexes and sizes, multi-segment reads, reopen with other segment sizes, and reader goroutines on views during appends (25% of shards under the race detector).", "DESIGN.md 4/C13"),
 "C14": ("fault_enumeration", "At every hook point hit inside every log operation a kill image and (always for >=8 KiB segments) a power-loss image (per-page choice between last flushed and current content) is reopened and compared with the model before/after the interrupted operation; at each msync additionally an image as of the middle of that msync.", "DESIGN.md 4/C14, 10.3"),
 "C15": ("exploration", "Chaos schedules; any panic, fatal error, fault, Serve error, goroutine left blocked after shutdown, task that never completes is a violation; 30% of the shards run the same generator under the Go race detector in black-box mode.", "DESIGN.md 4/C15"),
 "C16": ("exploration", "Generated transfer schedules; oracles: success only with the old leader stepped down into a higher term, timeout-now only to a voter whose log (read at the write instant) holds the leader's last entry, no update or membership change completes successfully while a transfer is in progress, every transfer request is answered, election safety ledger, convergence after heal.", "DESIGN.md 4/C16, 10.3"),
 "C17": ("exploration", "Bounded liveness: after a generated fault history only a majority is healed; within 60 virtual seconds there must be one leader with an own-term commit, a completed probe update and caught-up healthy members; stability: a follower with a live leader refuses vote requests without transfer permission without moving its term (judged in time-frozen delivery steps by the follower's own idea of its leader; in scripted deliveries also by the clock: leader acknowledged less than one election timeout ago over a connection that is still alive).", "DESIGN.md 4/C17, 10.3"),
 "C18": ("exploration", "Round-trip + exact consumption + all proper prefixes rejected, for generated values of every encoded type, append streams through bufio, and persisted identity/term/vote for all 64-bit values.", "DESIGN.md 4/C18"),
 "C19": ("exploration", "A GetInfo task is handed to every idle node after every step; successive reports of one incarnation must be monotonic in term/commit/applied/snapshot index, ordered internally, and Latest must equal the newest configuration entry found by direct inspection of log and snapshot label.", "DESIGN.md 4/C19"),
 "C20": ("exploration", "Two clusters with overlapping ids and scrambled resolvers on one network: wire oracle on every handshake and everything after it; lock model for SetIdentity/New/Serve on one directory.", "DESIGN.md 4/C20"),
}

TECH = {
 "C05": "property-based testing (rapid): generated handler call sequences vs reference model, with enumerated crash branches per call",
 "C13": "model-based property testing (rapid) of the log against a sequence model, incl. -race reader goroutines",
 "C14": "model-based property testing (rapid) + fault injection: kill / power-loss images at every hook point vs model",
 "C18": "property-based testing (rapid): round-trip, framing and truncation oracles over generated values",
 "C20": "property-based testing (rapid): generated address scrambles on a simulated network with a wire-level oracle; stateful lock model",
}

def main():
    hooks = subprocess.run(["git", "-C", "/repo", "log", "--format=%h %s"], capture_output=True, text=True).stdout.splitlines()
    hook_commits = [l.split()[0] for l in hooks if l.split(" ", 1)[1].startswith("verif:")]
    checks = []
    for p in props:
        pid = p["id"]
        if pid not in CHECKS or pid not in TEXT:
            continue
        cfg = CHECKS[pid]
        level, text, ref = TEXT[pid]
        assert level == cfg["level"], (pid, level, cfg["level"])
        checks.append({
            "property_id": pid,
            "quick_cmd": "./check %s --tier quick" % pid,
            "thorough_cmd": "./check %s --tier thorough" % pid,
            "evidence_file": "/verif/evidence/%s.json" % pid,
            "replay_cmd_template": "./check %s --replay {path}" % pid,
            "engine": {"raft": "vsim" if cfg["test"] not in ("TestVerif_C05", "TestVerif_C18", "TestVerif_C20") else {"TestVerif_C05": "votefn", "TestVerif_C18": "codec", "TestVerif_C20": "ident"}[cfg["test"]], "log": "logmodel"}[cfg["pkg"]],
            "level_claimed": {"category": level, "text": text, "design_ref": ref},
            "level_note": "; ".join(cfg.get("assumptions", []))[:1500],
            "technique": TECH.get(pid, "property-based testing (rapid) of generated schedules/fault sequences on real nodes in a synctest bubble (harness-owned network, clock, crashes) against ledger/invariant oracles; shrunk failures become replay files"),
        })
    claimed = {c["property_id"] for c in checks}
    na = [{"property_id": p["id"], "reason": "check not yet registered"} for p in props if p["id"] not in claimed]
    m = {
        "version": 1,
        "setup_cmd": "python3 /verif/vbuild.py raft && python3 /verif/vbuild.py log && python3 /verif/vbuild.py raft --race && python3 /verif/vbuild.py log --race",
        "hooks": {
            "guard": "verif",
            "enable": "go test -tags verif; harness files under /verif/harness/{raft,log} are mapped into the packages through -overlay (repository tests masked), rapid is added through -modfile; see vbuild.py. /repo is never written to.",
            "baseline_off_cmd": "cd /repo && GOFLAGS=-mod=mod GOPROXY=off go test -vet=off -count=1 -timeout 25m ./...",
            "source_commits": hook_commits,
            "add_only": True,
        },
        "engines": [
            {"name": "vsim", "path": "harness/raft/{simnet,wiremon,cluster,ledgers,wire,tasks,info,actions,gen,run,specs}.go", "serves_properties": [c["property_id"] for c in checks if c["engine"] == "vsim"], "kind_free_text": "real Raft nodes inside testing/synctest bubbles on a harness-owned TCP-like network and virtual clock; rapid generates schedules/faults; omniscient ledgers checked after every step"},
            {"name": "votefn", "path": "harness/raft/votefn.go", "serves_properties": ["C05"], "kind_free_text": "vote handler as a function with crash branches vs term-file model"},
            {"name": "codec", "path": "harness/raft/codec.go", "serves_properties": ["C18"], "kind_free_text": "round-trip / framing / truncation properties"},
            {"name": "ident", "path": "harness/raft/ident.go", "serves_properties": ["C20"], "kind_free_text": "two clusters with scrambled resolvers; lock model"},
            {"name": "logmodel", "path": "harness/log/logmodel.go", "serves_properties": ["C13", "C14"], "kind_free_text": "segmented log vs sequence model with kill and power-loss images"},
        ],
        "checks": checks,
        "not_applicable": na,
        "notes": "Driver: ./check <ID> [--tier quick|thorough] [--replay file]; VERIF_SEED selects the rapid seeds of all shards. Exit 2 = inconclusive (build failure against an edited tree, time-out, or failure of an oracle that does not decide the property). Known findings: KNOWN_FINDINGS.txt.",
    }
    if not na:
        del m["not_applicable"]
    json.dump(m, open(os.path.join(os.path.dirname(os.path.abspath(__file__)), "MANIFEST.json"), "w"), indent=1)
    print("claimed", sorted(claimed), "not applicable", [x["property_id"] for x in na])

if __name__ == "__main__":
    main()
