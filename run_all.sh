#!/bin/bash
# run every registered check at a tier/seed, print a one-line summary each
TIER=${1:-quick}; SEED=${2:-1}
for p in C01 C02 C03 C04 C05 C06 C07 C08 C09 C10 C11 C12 C13 C14 C15 C16 C17 C18 C19 C20; do
  s=$(date +%s); out=$(VERIF_SEED=$SEED ./check $p --tier $TIER 2>&1); rc=$?; e=$(date +%s)
  echo "$p rc=$rc $((e-s))s $(echo "$out" | grep -E "^$p " | head -1 | cut -c1-150)"
  [ $rc -ne 0 ] && echo "$out" | grep -E "VIOLATION|INCIDENTAL|INCONCLUSIVE|key=" | head -5
done
