//go:build verif && go1.25

package raft

// Wire monitor: parses both byte streams of a connection with the package's own
// decoders, at the instant bytes are written. Requests and responses are paired
// by FIFO order, exactly as the code under test does.

import (
	"bytes"
	"io"
)

type wireMsg struct {
	conn    *simConn
	dir     int // 0 request direction, 1 response direction
	kind    string
	req     request  // for requests; for responses: the request being answered
	resp    response // for responses
	entries []*entry // entries of an append request (filled as they are written)
	reqMsg  *wireMsg // for responses: the request message
	answered bool
}

type streamMon struct {
	conn     *simConn
	buf      [2][]byte
	broken   bool
	reqs     []*wireMsg // fully parsed requests not yet answered
	cur      *wireMsg   // append request still receiving entries
	needEnt  uint64
	skip     int64 // snapshot bytes still to skip
	identity *identityReq
	emit     func(m *wireMsg)
}

func (m *streamMon) feed(dir int, b []byte) {
	if m.broken {
		return
	}
	m.buf[dir] = append(m.buf[dir], b...)
	if dir == 0 {
		m.parseReqs()
	} else {
		m.parseResps()
	}
}

func short(err error) bool { return err == io.EOF || err == io.ErrUnexpectedEOF }

func (m *streamMon) parseReqs() {
	for {
		b := m.buf[0]
		if m.skip > 0 {
			k := int64(len(b))
			if k > m.skip {
				k = m.skip
			}
			m.buf[0] = b[k:]
			m.skip -= k
			if m.skip > 0 {
				return
			}
			continue
		}
		if len(b) == 0 {
			return
		}
		if m.needEnt > 0 {
			r := bytes.NewReader(b)
			e := &entry{}
			if err := e.decode(r); err != nil {
				if short(err) {
					return
				}
				m.broken = true
				return
			}
			m.buf[0] = b[len(b)-r.Len():]
			m.cur.entries = append(m.cur.entries, e)
			m.needEnt--
			if m.needEnt == 0 {
				m.cur = nil
			}
			continue
		}
		rt := rpcType(b[0])
		if !rt.isValid() {
			m.broken = true // admin task or garbage: not monitored
			return
		}
		req := rt.createReq()
		r := bytes.NewReader(b[1:])
		if err := req.decode(r); err != nil {
			if short(err) {
				return
			}
			m.broken = true
			return
		}
		m.buf[0] = b[len(b)-r.Len():]
		msg := &wireMsg{conn: m.conn, dir: 0, req: req}
		switch q := req.(type) {
		case *identityReq:
			msg.kind = "identityReq"
			m.identity = q
		case *voteReq:
			msg.kind = "voteReq"
		case *appendReq:
			msg.kind = "appendReq"
			if q.numEntries > 0 {
				m.cur, m.needEnt = msg, q.numEntries
			}
		case *installSnapReq:
			msg.kind = "installReq"
			m.skip = q.size
		case *timeoutNowReq:
			msg.kind = "timeoutNowReq"
		}
		m.reqs = append(m.reqs, msg)
		if m.emit != nil {
			m.emit(msg)
		}
	}
}

func (m *streamMon) parseResps() {
	for {
		b := m.buf[1]
		if len(b) == 0 {
			return
		}
		if len(m.reqs) == 0 {
			m.broken = true // response without request
			return
		}
		rq := m.reqs[0]
		var resp response
		var kind string
		switch rq.req.(type) {
		case *identityReq:
			resp, kind = &identityResp{}, "identityResp"
		case *voteReq:
			resp, kind = &voteResp{}, "voteResp"
		case *appendReq:
			resp, kind = &appendResp{}, "appendResp"
		case *installSnapReq:
			resp, kind = &installSnapResp{}, "installResp"
		case *timeoutNowReq:
			resp, kind = &timeoutNowResp{}, "timeoutNowResp"
		}
		r := bytes.NewReader(b)
		if err := resp.decode(r); err != nil {
			if short(err) {
				return
			}
			m.broken = true
			return
		}
		m.buf[1] = b[len(b)-r.Len():]
		m.reqs = m.reqs[1:]
		rq.answered = true
		msg := &wireMsg{conn: m.conn, dir: 1, kind: kind, req: rq.req, resp: resp, reqMsg: rq}
		if m.emit != nil {
			m.emit(msg)
		}
	}
}
