//go:build verif && go1.25

package raft

import "testing"

var specs = map[string]*checkSpec{}

func reg(s *checkSpec) *checkSpec { specs[s.prop] = s; return s }

var specC01 = reg(&checkSpec{
	prop: "C01", profiles: []string{"elect", "elect", "member", "transfer"},
	deciding: []string{"leader-unique"},
	rule:     "non-trivial: >=2 elections started and (>=2 leaders elected or a fault (crash/restart/sever/isolate) happened before a leader was elected); distinct by hash of action kinds+nodes, leader-per-term ledger and max commit index",
	nontrivial: func(c *cluster) bool {
		return c.led.elections >= 2 && (c.led.leadersElected >= 2 || c.stats.has("fault"))
	},
})

var specC02 = reg(&checkSpec{
	prop: "C02", profiles: []string{"repl", "repl", "member", "snap"},
	deciding: []string{"leader-complete", "commit-stable"},
	rule:     "non-trivial: >=1 entry committed and afterwards a leader change (>=2 leaders elected); distinct by trace hash",
	nontrivial: func(c *cluster) bool { return c.led.maxCommit > 1 && c.led.leadersElected >= 2 },
})

var specC03 = reg(&checkSpec{
	prop: "C03", profiles: []string{"repl", "snap", "client"},
	deciding: []string{"fsm-agreement", "exactly-once"},
	rule:     "non-trivial: >=5 updates committed and (a leader change or an FSM restore) occurred; distinct by trace hash",
	nontrivial: func(c *cluster) bool {
		return len(c.led.updIDs) >= 5 && (c.led.leadersElected >= 2 || c.stats.has("fsm-restored"))
	},
})

var specC04 = reg(&checkSpec{
	prop: "C04", profiles: []string{"repl", "repl", "elect"},
	deciding: []string{"log-matching", "leader-append-only"},
	rule:     "non-trivial: some node truncated >=1 entry, or >=2 leaders were elected with >=3 entries replicated; distinct by trace hash",
	nontrivial: func(c *cluster) bool {
		return c.stats.has("truncation") || (c.led.leadersElected >= 2 && c.led.maxCommit >= 3)
	},
})

var specC05v = reg(&checkSpec{
	prop: "C05v", profiles: []string{"elect", "elect", "crash", "transfer"},
	deciding: []string{"one-vote", "vote-durable", "term-monotonic"},
	rule:     "vsim part of C05",
	nontrivial: func(c *cluster) bool { return c.led.elections >= 2 && c.stats.has("wire-voteResp-success") },
})

var specC07 = reg(&checkSpec{
	prop: "C07", profiles: []string{"client", "client", "transfer", "member"},
	deciding: []string{"client-semantics", "exactly-once"},
	rule:     "non-trivial: >=1 client task failed (definitively or ambiguously) and >=2 leaders were elected, with >=3 successful updates; distinct by trace hash",
	nontrivial: func(c *cluster) bool {
		failed := c.stats.has("upd-lost") || c.stats.has("upd-notleader") || c.stats.has("upd-inprogress") || c.stats.has("upd-closed")
		return failed && c.led.leadersElected >= 2 && c.stats.count("upd-ok") >= 3
	},
})

var specC08 = reg(&checkSpec{
	prop: "C08", profiles: []string{"member", "member", "transfer"},
	deciding: []string{"config-safety", "info-config", "leader-unique", "leader-complete", "commit-stable"},
	rule:     "non-trivial: >=2 configuration entries appended by leaders and >=2 leaders elected; distinct by trace hash",
	nontrivial: func(c *cluster) bool { return c.stats.count("leader-config-change") >= 2 && c.led.leadersElected >= 2 },
})

var specC11 = reg(&checkSpec{
	prop: "C11", profiles: []string{"member", "member", "transfer"},
	deciding: []string{"nonvoter-authority", "durable-majority"},
	rule:     "non-trivial: a node that is a non-voter (or not a member) in its own latest configuration had its election timer fire or received a timeout-now request, or a promotion was appended; distinct by trace hash",
	nontrivial: func(c *cluster) bool {
		return c.stats.has("nonvoter-timeout") || c.stats.has("wire-timeoutNowResp-nonVoter") || c.stats.has("promotion")
	},
})

var specC15 = reg(&checkSpec{
	prop: "C15", profiles: []string{"chaos", "chaos", "snap", "member", "transfer"},
	deciding: []string{"no-crash", "serve", "shutdown", "tasks-complete", "log-read"},
	rule:     "non-trivial: the case combined >=3 of {snapshot, compaction, snapshot install, transfer, membership change, partition, restart}; distinct by trace hash",
	nontrivial: func(c *cluster) bool {
		k := 0
		for _, cls := range []string{"snap-ok", "compaction", "wire-install-ok", "a-xfer", "leader-config-change", "a-isolate", "a-restart"} {
			if c.stats.has(cls) {
				k++
			}
		}
		return k >= 3
	},
})

var specC16 = reg(&checkSpec{
	prop: "C16", profiles: []string{"transfer"},
	deciding: []string{"transfer", "leader-unique", "converge", "tasks-complete"},
	closing:  true,
	rule:     "non-trivial: a transfer was accepted (timeout-now written or transfer task pending) while updates, a membership action or a competing election were in flight, or its reply/vote traffic was withheld; distinct by trace hash",
	nontrivial: func(c *cluster) bool { return c.stats.has("wire-timeoutNow") && (c.stats.has("xfer-err") || c.stats.has("xfer-ok")) },
})

var specC19 = reg(&checkSpec{
	prop: "C19", profiles: []string{"info", "info", "snap", "member"},
	deciding: []string{"info-order", "info-monotonic", "info-config"},
	rule:     "non-trivial: a node that answered >=2 status reports processed a snapshot installation, a truncation or a configuration revert; distinct by trace hash",
	nontrivial: func(c *cluster) bool {
		return c.stats.count("info") >= 2 && (c.stats.has("wire-install-ok") || c.stats.has("truncation") || c.stats.has("config-reverted"))
	},
})

var specC06 = reg(&checkSpec{
	prop: "C06", profiles: []string{"member", "member", "repl", "crash"},
	deciding: []string{"durable-majority", "ack-durable"},
	rule:     "non-trivial: a leader commit advance was judged while the configuration had just changed or non-voters were present; distinct by trace hash",
	nontrivial: func(c *cluster) bool {
		return c.stats.has("census-config-just-changed") || c.stats.has("census-with-nonvoters")
	},
})

var specC09 = reg(&checkSpec{
	prop: "C09", profiles: []string{"snap", "snap", "snapmember", "chaos"},
	deciding: []string{"fsm-agreement", "snapshot-content", "restart", "converge", "no-crash", "log-read"},
	closing:  true,
	rule:     "non-trivial: a compaction removed >=1 segment or a snapshot was installed on another node, and the case ended with the closing phase (heal, restart, convergence check); distinct by trace hash",
	nontrivial: func(c *cluster) bool {
		return (c.stats.has("compaction") || c.stats.has("wire-install-ok")) && c.stats.has("closing")
	},
})

var specC10 = reg(&checkSpec{
	prop: "C10", profiles: []string{"crash", "crash", "snap", "member"},
	deciding: []string{"restart", "serve", "restart-consistent", "term-monotonic", "vote-durable", "converge", "leader-unique", "leader-complete", "commit-stable", "log-matching", "fsm-agreement", "no-crash"},
	closing:  true,
	rule:     "non-trivial: a node was killed at a hook point strictly inside a storage-mutating sequence and later restarted from that image; distinct by trace hash",
	nontrivial: func(c *cluster) bool { return c.stats.has("crashed-at-hook") && c.stats.has("restarted") },
})

var specC12 = reg(&checkSpec{
	prop: "C12", profiles: []string{"snapmember", "snapmember", "snap"},
	deciding: []string{"snapshot-label", "info-config"},
	rule:     "non-trivial: a snapshot reached a disk whose index lies at or after a configuration change (configuration in force differs from the bootstrap one); distinct by trace hash",
	nontrivial: func(c *cluster) bool { return c.stats.has("snapshot-after-config-change") },
})

var specC17 = reg(&checkSpec{
	prop: "C17", profiles: []string{"chaos", "member", "crash", "snap", "elect", "repl"},
	deciding: []string{"converge", "stability"},
	avail:    true,
	setup:    func(c *cluster) { c.strandedDeciding = true },
	rule:     "non-trivial: the fault history contained >=2 faults (crash/stop/sever/isolate/cut) and the availability phase left a minority out, or a follower with a live leader was sent a vote request without transfer permission; distinct by trace hash",
	nontrivial: func(c *cluster) bool {
		return (c.stats.count("fault") >= 2 && c.stats.has("closing")) || c.stats.has("stability-judged")
	},
})

func TestVerif_C17(t *testing.T) {
	corpusReplay(t, specC17)
	t.Run("schedules", func(t *testing.T) { runSpec(t, specC17) })
	t.Run("stabilityfn", stabilityFn)
}
func TestVerif_C09(t *testing.T) { corpusReplay(t, specC09); runSpec(t, specC09) }
func TestVerif_C10(t *testing.T) { corpusReplay(t, specC10); runSpec(t, specC10) }
func TestVerif_C12(t *testing.T) { corpusReplay(t, specC12); runSpec(t, specC12) }
func TestVerif_C06(t *testing.T) { corpusReplay(t, specC06); runSpec(t, specC06) }
func TestVerif_C05v(t *testing.T) { corpusReplay(t, specC05v); runSpec(t, specC05v) }
func TestVerif_C07(t *testing.T)  { corpusReplay(t, specC07); runSpec(t, specC07) }
func TestVerif_C08(t *testing.T)  { corpusReplay(t, specC08); runSpec(t, specC08) }
func TestVerif_C11(t *testing.T)  { corpusReplay(t, specC11); runSpec(t, specC11) }
func TestVerif_C15(t *testing.T)  { corpusReplay(t, specC15); runSpec(t, specC15) }
func TestVerif_C16(t *testing.T)  { corpusReplay(t, specC16); runSpec(t, specC16) }
func TestVerif_C19(t *testing.T)  { corpusReplay(t, specC19); runSpec(t, specC19) }
func TestVerif_C01(t *testing.T) { corpusReplay(t, specC01); runSpec(t, specC01) }
func TestVerif_C02(t *testing.T) { corpusReplay(t, specC02); runSpec(t, specC02) }
func TestVerif_C03(t *testing.T) { corpusReplay(t, specC03); runSpec(t, specC03) }
func TestVerif_C04(t *testing.T) { corpusReplay(t, specC04); runSpec(t, specC04) }
