//go:build verif && go1.25

package raft

import "testing"

var specs = map[string]*checkSpec{}

func reg(s *checkSpec) *checkSpec { specs[s.prop] = s; return s }

var specC01 = reg(&checkSpec{
	prop: "C01", profiles: []string{"elect", "elect", "member", "transfer"},
	deciding: []string{"leader-unique"},
	rule:     "non-trivial: >=2 elections started and (>=2 leaders elected or a fault (crash/restart/sever/isolate) happened before a leader was elected); distinct by hash of action kinds+nodes, leader-per-term ledger and max commit index",
	nontrivial: func(c *cluster) bool {
		return c.led.elections >= 2 && (c.led.leadersElected >= 2 || c.stats.has("fault"))
	},
})

var specC02 = reg(&checkSpec{
	prop: "C02", profiles: []string{"repl", "repl", "member", "snap"},
	deciding: []string{"leader-complete", "commit-stable"},
	rule:     "non-trivial: >=1 entry committed and afterwards a leader change (>=2 leaders elected); distinct by trace hash",
	nontrivial: func(c *cluster) bool { return c.led.maxCommit > 1 && c.led.leadersElected >= 2 },
})

var specC03 = reg(&checkSpec{
	prop: "C03", profiles: []string{"repl", "snap", "client"},
	deciding: []string{"fsm-agreement", "exactly-once"},
	rule:     "non-trivial: >=5 updates committed and (a leader change or an FSM restore) occurred; distinct by trace hash",
	nontrivial: func(c *cluster) bool {
		return len(c.led.updIDs) >= 5 && (c.led.leadersElected >= 2 || c.stats.has("fsm-restored"))
	},
})

var specC04 = reg(&checkSpec{
	prop: "C04", profiles: []string{"repl", "repl", "elect"},
	deciding: []string{"log-matching", "leader-append-only"},
	rule:     "non-trivial: some node truncated >=1 entry, or >=2 leaders were elected with >=3 entries replicated; distinct by trace hash",
	nontrivial: func(c *cluster) bool {
		return c.stats.has("truncation") || (c.led.leadersElected >= 2 && c.led.maxCommit >= 3)
	},
})

func TestVerif_C01(t *testing.T) { corpusReplay(t, specC01); runSpec(t, specC01) }
func TestVerif_C02(t *testing.T) { corpusReplay(t, specC02); runSpec(t, specC02) }
func TestVerif_C03(t *testing.T) { corpusReplay(t, specC03); runSpec(t, specC03) }
func TestVerif_C04(t *testing.T) { corpusReplay(t, specC04); runSpec(t, specC04) }
