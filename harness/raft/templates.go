//go:build verif && go1.25

package raft

// Templates: scripted multi-step compositions of ordinary actions that put the
// cluster into deep states random single actions rarely reach (a follower that
// needs a snapshot, a stale snapshot installation on an old connection, a crash
// at a chosen hook point that is actually hit). Every step is recorded as a
// concrete action, so cases that used a template replay like any other.

import (
	"pgregory.net/rapid"
)

func (c *cluster) followersOf(ldr uint64) []uint64 {
	var out []uint64
	for _, id := range c.upIDs() {
		if id != ldr {
			out = append(out, id)
		}
	}
	return out
}

func (c *cluster) anyLeader() uint64 {
	ls := c.leaders()
	if len(ls) == 0 {
		return 0
	}
	return ls[len(ls)-1]
}

func (c *cluster) burst(rt *rapid.T, ldr uint64, total, pad int) {
	for total > 0 && !c.failed() {
		b := total
		if b > 10 {
			b = 10
		}
		total -= b
		c.step(vAct{A: "upd", N: ldr, K: b, T: int64(pad)})
		c.step(vAct{A: "adv", T: 100})
	}
}

// tplLagSnap: 1-2 followers fall behind (cut off or down) while the leader
// appends several segments, snapshots and compacts; then they come back and
// must be brought up to date by snapshot. Optionally a local snapshot of the
// lagging follower is parked first and released during/after the installation.
func (c *cluster) tplLagSnap(rt *rapid.T) {
	c.step(vAct{A: "free"})
	c.step(vAct{A: "adv", T: 1500})
	ldr := c.anyLeader()
	if ldr == 0 {
		return
	}
	flrs := c.followersOf(ldr)
	if len(flrs) == 0 {
		return
	}
	c.stats.class("tpl-lagsnap")
	k := 1
	if len(flrs) >= 2 && rapid.Bool().Draw(rt, "twoLagging") {
		k = 2
	}
	lag := flrs[:k]
	if rapid.Bool().Draw(rt, "lagLast") {
		lag = flrs[len(flrs)-k:]
	}
	held := false
	holdPoint := []string{"snap.begin", "snap.begin", "snap.premeta", "snap.fsmdone"}[rapid.IntRange(0, 3).Draw(rt, "holdPoint")]
	// keepHeld: the parked snapshot request outlives the installation (its state
	// machine request is only sent afterwards)
	keepHeld := holdPoint == "snap.begin" && rapid.Bool().Draw(rt, "keepHeld")
	// staleReqOnNonvoter: the same on a node that does not vote, so that it does not
	// campaign while cut off and nothing but the snapshot reaches it afterwards
	forceHeld := false
	if r := c.rf(ldr); r != nil && !c.blackbox && keepHeld && rapid.Bool().Draw(rt, "staleReqOnNonvoter") {
		var nv uint64
		for _, id := range flrs {
			if nd, ok := r.configs.Latest.Nodes[id]; ok && !nd.Voter && nd.Action == None {
				nv = id
			}
		}
		if nv == 0 && r.configs.IsCommitted() {
			for _, id := range flrs {
				if _, ok := r.configs.Latest.Nodes[id]; !ok {
					nv = id
					c.step(vAct{A: "cfg", N: ldr, M: nv, S: "addnv"})
					c.step(vAct{A: "adv", T: 2000})
					break
				}
			}
		}
		if nv != 0 && c.anyLeader() == ldr {
			lag, forceHeld = []uint64{nv}, true
			c.stats.class("tpl-lagsnap-stale-request-on-nonvoter")
		}
	}
	if forceHeld || rapid.IntRange(0, 2).Draw(rt, "heldLocalSnap") == 0 {
		held = true
		c.step(vAct{A: "hold", N: lag[0], S: holdPoint})
		c.step(vAct{A: "snap", N: lag[0], K: 0})
	}
	// or its state machine is slow: Update parked while entries are queued for it,
	// released only after the snapshot has been installed over its log
	fsmHeld := false
	if !held && !c.blackbox && rapid.IntRange(0, 3).Draw(rt, "slowFSM") == 0 {
		fsmHeld = true
		c.step(vAct{A: "hold", N: lag[0], S: "fsm.apply"})
		c.step(vAct{A: "upd", N: ldr, K: rapid.IntRange(2, 6).Draw(rt, "queuedForFSM"), T: 20})
		c.step(vAct{A: "adv", T: 100})
		c.stats.class("tpl-lagsnap-slow-fsm")
	}
	down := rapid.Bool().Draw(rt, "lagByCrash") && !held && !fsmHeld
	for _, f := range lag {
		if down {
			c.step(vAct{A: "crash", N: f, B: true})
		} else {
			c.step(vAct{A: "isolate", N: f, B: true})
		}
	}
	c.step(vAct{A: "adv", T: 3000})
	if c.anyLeader() != ldr {
		ldr = c.anyLeader()
		if ldr == 0 {
			return
		}
	}
	c.burst(rt, ldr, rapid.IntRange(25, 70).Draw(rt, "entries"), rapid.IntRange(40, 160).Draw(rt, "pad"))
	c.step(vAct{A: "snap", N: ldr, K: 0})
	c.step(vAct{A: "adv", T: 1500})
	if !(held && keepHeld) && rapid.Bool().Draw(rt, "moreAfterSnap") {
		c.burst(rt, ldr, rapid.IntRange(1, 15).Draw(rt, "more"), 30)
	}
	if held && !keepHeld && rapid.Bool().Draw(rt, "releaseBeforeInstall") {
		c.step(vAct{A: "unhold", N: lag[0], S: holdPoint})
		held = false
	}
	// sometimes whoever opens the leader's snapshot next (the replication that has
	// to send it) is parked between reading its label and opening its file, while
	// the leader takes a newer snapshot whose retention retires the older one
	openHeld := false
	if !c.blackbox && !(held && keepHeld) && rapid.IntRange(0, 3).Draw(rt, "holdSnapshotOpen") == 0 {
		openHeld = true
		c.step(vAct{A: "hold", N: ldr, S: "snapopen.meta"})
	}
	c.step(vAct{A: "heal"})
	for _, f := range lag {
		if down {
			c.step(vAct{A: "restart", N: f})
		}
	}
	if openHeld {
		c.step(vAct{A: "adv", T: 1100})
		if c.anyLeader() == ldr {
			c.burst(rt, ldr, rapid.IntRange(3, 12).Draw(rt, "moreForNewerSnap"), 30)
			c.step(vAct{A: "snap", N: ldr, K: 0})
			c.step(vAct{A: "adv", T: 600})
			c.stats.class("tpl-lagsnap-open-held-newer-snapshot")
		}
		c.step(vAct{A: "unhold", N: ldr, S: "snapopen.meta"})
	}
	if held && keepHeld {
		// release right after the installation, before anything else reaches the node
		okBefore := c.stats.count("wire-install-ok")
		for i := 0; i < 40 && c.stats.count("wire-install-ok") == okBefore && !c.failed(); i++ {
			c.step(vAct{A: "adv", T: 100})
		}
	}
	for i := 0; i < 4 && !c.failed() && !(held && keepHeld); i++ {
		c.step(vAct{A: "adv", T: 1100})
		if held && !keepHeld && rapid.IntRange(0, 2).Draw(rt, "releaseNow") == 0 {
			c.step(vAct{A: "unhold", N: lag[0], S: holdPoint})
			held = false
		}
	}
	if held {
		// sometimes the released snapshot dies while its file is half written
		dies := !c.blackbox && (keepHeld || rapid.IntRange(0, 2).Draw(rt, "diesInPersist") == 0)
		if dies {
			c.step(vAct{A: "crash", N: lag[0], S: "fsm.persist", K: 1, B: rapid.Bool().Draw(rt, "fin")})
		}
		if keepHeld {
			c.stats.class("tpl-lagsnap-stale-snapshot-request")
			if r := c.rf(lag[0]); r != nil {
				if si, _ := r.snaps.latest(); si > 0 && r.fsm.index == si {
					c.stats.class("tpl-lagsnap-stale-snapshot-request-at-installed-index")
				} else if si == 0 {
					c.stats.class("tpl-lagsnap-stale-snapshot-request-no-install-yet")
				} else if r.fsm.index > si {
					c.stats.class("tpl-lagsnap-stale-snapshot-request-beyond-installed-index")
				}
			}
		}
		c.step(vAct{A: "unhold", N: lag[0], S: holdPoint})
		c.step(vAct{A: "adv", T: 1100})
		if n := c.nodes[lag[0]]; dies && n != nil && n.status == nodeDown {
			c.stats.class("tpl-lagsnap-died-in-persist")
			c.step(vAct{A: "restart", N: lag[0]})
			c.step(vAct{A: "adv", T: 2000})
		}
	}
	if fsmHeld {
		c.step(vAct{A: "unhold", N: lag[0], S: "fsm.apply"})
		c.step(vAct{A: "adv", T: 1100})
	}
}

// tplStaleInstall: the leader's first InstallSnapshot request to a lagging
// non-voter is withheld on its connection; the leader gives up, reconnects and
// installs the snapshot over the new connection, the follower moves on; then the
// bytes of the old connection arrive. The lagging node is a non-voter so that it
// does not start elections meanwhile (a term change would make the withheld
// request stale by term, which is rejected long before the code of interest).
func (c *cluster) tplStaleInstall(rt *rapid.T) {
	c.step(vAct{A: "free"})
	c.step(vAct{A: "adv", T: 1500})
	ldr := c.anyLeader()
	flrs := c.followersOf(ldr)
	if ldr == 0 || len(flrs) < 2 || c.blackbox {
		return
	}
	r := raftOf(c.up(ldr))
	if r == nil {
		return
	}
	cfg := r.configs.Latest.clone()
	var f uint64
	var outside, voters []uint64
	for _, id := range flrs {
		if nd, ok := cfg.Nodes[id]; !ok {
			outside = append(outside, id)
		} else if nd.Voter {
			voters = append(voters, id)
		} else if f == 0 {
			f = id
		}
	}
	switch {
	case f != 0:
	case len(outside) > 0 && rapid.Bool().Draw(rt, "joinNonvoter"):
		f = outside[0]
		c.step(vAct{A: "cfg", N: ldr, M: f, S: "addnv"})
	case len(voters) >= 2:
		f = voters[rapid.IntRange(0, len(voters)-1).Draw(rt, "follower")]
		c.step(vAct{A: "cfg", N: ldr, M: f, S: "demote"})
	default:
		return
	}
	c.step(vAct{A: "adv", T: 2500})
	if c.anyLeader() != ldr {
		return
	}
	c.stats.class("tpl-staleinstall")
	c.step(vAct{A: "isolate", N: f, B: true})
	c.step(vAct{A: "adv", T: 1500})
	if c.anyLeader() != ldr {
		return
	}
	c.burst(rt, ldr, rapid.IntRange(30, 60).Draw(rt, "entries"), rapid.IntRange(60, 160).Draw(rt, "pad"))
	c.step(vAct{A: "snap", N: ldr, K: 0})
	c.step(vAct{A: "adv", T: 2000})
	c.step(vAct{A: "gate"})
	c.step(vAct{A: "heal"})
	// one delivery round at a time, so that the request is seen being written
	// (wire monitor) before any of its bytes are delivered
	before := c.stats.count("wire-installSnap")
	for i := 0; i < 60 && c.stats.count("wire-installSnap") == before && !c.failed(); i++ {
		c.step(vAct{A: "dlvpair", N: ldr, M: f, K: 1})
		if c.stats.count("wire-installSnap") == before && i%2 == 1 {
			c.step(vAct{A: "adv", T: 150})
		}
	}
	if c.stats.count("wire-installSnap") == before {
		c.step(vAct{A: "free"})
		return
	}
	c.stats.class("tpl-staleinstall-withheld")
	// the request (and the snapshot bytes) now sit undelivered on that connection;
	// the others keep talking; the leader's read deadline passes, it closes the
	// connection and dials again
	var others []uint64
	for _, id := range c.upIDs() {
		if id != f {
			others = append(others, id)
		}
	}
	stale := c.net.newestConnID(hostOf(ldr), hostOf(f))
	for i := 0; i < 30 && c.net.newestConnID(hostOf(ldr), hostOf(f)) == stale && !c.failed(); i++ {
		c.step(vAct{A: "adv", T: 400})
		c.step(vAct{A: "dlvamong", L: others, K: 3})
	}
	if c.net.newestConnID(hostOf(ldr), hostOf(f)) == stale || c.anyLeader() != ldr {
		c.step(vAct{A: "free"})
		return
	}
	okBefore := c.stats.count("wire-install-ok")
	for i := 0; i < 16 && c.stats.count("wire-install-ok") == okBefore && !c.failed(); i++ {
		c.step(vAct{A: "dlvnewest", N: ldr, M: f, K: 6})
		c.step(vAct{A: "adv", T: 300})
		c.step(vAct{A: "dlvamong", L: others, K: 3})
	}
	if c.stats.count("wire-install-ok") > okBefore {
		c.stats.class("tpl-staleinstall-reinstalled")
	}
	if rapid.IntRange(0, 3).Draw(rt, "moveOn") > 0 {
		c.step(vAct{A: "upd", N: ldr, K: rapid.IntRange(1, 8).Draw(rt, "k"), T: 20})
		for i := 0; i < 4 && !c.failed(); i++ {
			c.step(vAct{A: "dlvamong", L: others, K: 2})
			c.step(vAct{A: "dlvnewest", N: ldr, M: f, K: 4})
			c.step(vAct{A: "adv", T: 300})
		}
	}
	// now the stale bytes
	c.step(vAct{A: "dlvpair", N: ldr, M: f, K: 8})
	c.step(vAct{A: "free"})
	c.step(vAct{A: "adv", T: 3000})
}

var crashStimulus = map[string]string{
	"term.persisted": "election", "vote.persisted": "election",
	"append.appended": "update", "append.truncated": "update", "append.flushed": "update", "commit.advance": "update",
	"snap.fsmdone": "snapshot", "snap.premeta": "snapshot", "snap.postmeta": "snapshot", "snap.retained": "snapshot",
	"snaptaken.precompact": "snapshot", "ldr.precompact": "snapshot",
	"install.stored": "install", "install.cleared": "install",
}

// tplCrashPoint: arm a crash at a hook point on a node, apply the stimulus that
// makes the node run through that point, restart it from the image.
func (c *cluster) tplCrashPoint(rt *rapid.T) {
	c.step(vAct{A: "free"})
	c.step(vAct{A: "adv", T: 1500})
	ldr := c.anyLeader()
	if ldr == 0 {
		return
	}
	point := crashPoints[rapid.IntRange(0, len(crashPoints)-1).Draw(rt, "point")]
	stim := crashStimulus[point]
	flrs := c.followersOf(ldr)
	victim := ldr
	if len(flrs) > 0 && (stim == "election" || stim == "install" || point == "append.appended" || point == "append.truncated" || point == "append.flushed" || rapid.Bool().Draw(rt, "victimFollower")) {
		victim = flrs[rapid.IntRange(0, len(flrs)-1).Draw(rt, "victim")]
	}
	if point == "ldr.precompact" {
		victim = ldr
	}
	c.stats.class("tpl-crashpoint")
	kth := rapid.IntRange(1, 3).Draw(rt, "kth")
	switch stim {
	case "election":
		c.step(vAct{A: "crash", N: victim, S: point, K: kth, B: rapid.Bool().Draw(rt, "fin")})
		other := ldr
		for _, f := range flrs {
			if f != victim {
				other = f
			}
		}
		c.step(vAct{A: "isolate", N: ldr, B: true})
		c.step(vAct{A: "adv", T: 2500})
		c.step(vAct{A: "heal"})
		_ = other
		c.step(vAct{A: "adv", T: 2500})
	case "update":
		if point == "append.truncated" {
			// give the victim a conflicting suffix first: isolate the leader with unreplicated entries
			c.step(vAct{A: "isolate", N: ldr})
			c.step(vAct{A: "upd", N: ldr, K: 3, T: 10})
			c.step(vAct{A: "adv", T: 3000})
			c.step(vAct{A: "crash", N: ldr, S: point, K: 1, B: true})
			if nl := c.anyLeader(); nl != 0 && nl != ldr {
				c.step(vAct{A: "upd", N: nl, K: 2, T: 10})
			}
			c.step(vAct{A: "heal"})
			c.step(vAct{A: "adv", T: 3000})
			victim = ldr
		} else {
			c.step(vAct{A: "crash", N: victim, S: point, K: kth, B: rapid.Bool().Draw(rt, "fin")})
			c.burst(rt, ldr, rapid.IntRange(3, 25).Draw(rt, "n"), rapid.IntRange(0, 120).Draw(rt, "pad"))
			c.step(vAct{A: "adv", T: 600})
		}
	case "snapshot":
		c.burst(rt, ldr, rapid.IntRange(15, 50).Draw(rt, "n"), rapid.IntRange(40, 150).Draw(rt, "pad"))
		c.step(vAct{A: "crash", N: victim, S: point, K: 1, B: rapid.Bool().Draw(rt, "fin")})
		c.step(vAct{A: "snap", N: victim, K: 0})
		c.step(vAct{A: "adv", T: 1500})
	case "install":
		c.step(vAct{A: "isolate", N: victim, B: true})
		c.step(vAct{A: "adv", T: 3000})
		if c.anyLeader() != ldr {
			return
		}
		c.burst(rt, ldr, rapid.IntRange(30, 60).Draw(rt, "n"), rapid.IntRange(60, 160).Draw(rt, "pad"))
		c.step(vAct{A: "snap", N: ldr, K: 0})
		c.step(vAct{A: "adv", T: 2000})
		c.step(vAct{A: "crash", N: victim, S: point, K: 1, B: rapid.Bool().Draw(rt, "fin")})
		c.step(vAct{A: "heal"})
		c.step(vAct{A: "adv", T: 4000})
	}
	if n := c.nodes[victim]; n != nil && n.status == nodeDown {
		c.step(vAct{A: "adv", T: int64(rapid.IntRange(0, 3).Draw(rt, "downFor")) * 1000})
		c.step(vAct{A: "restart", N: victim})
		c.step(vAct{A: "adv", T: 3000})
	}
}

// tplDivergeSnap: a leader appends a long tail it cannot replicate, is cut off,
// the others elect a new leader, commit fewer entries than that tail is long,
// snapshot and compact; when the old leader comes back it has to be caught up by
// a snapshot whose last index lies INSIDE its own divergent tail.
func (c *cluster) tplDivergeSnap(rt *rapid.T) {
	c.step(vAct{A: "free"})
	c.step(vAct{A: "adv", T: 1500})
	ldr := c.anyLeader()
	flrs := c.followersOf(ldr)
	if ldr == 0 || len(flrs) < 2 {
		return
	}
	c.stats.class("tpl-divergesnap")
	c.step(vAct{A: "gate"})
	tail := rapid.IntRange(25, 60).Draw(rt, "tail")
	for tail > 0 && !c.failed() {
		b := tail
		if b > 12 {
			b = 12
		}
		tail -= b
		c.step(vAct{A: "upd", N: ldr, K: b, T: int64(rapid.IntRange(20, 120).Draw(rt, "tailpad"))})
	}
	c.step(vAct{A: "isolate", N: ldr, B: true})
	c.step(vAct{A: "free"})
	c.step(vAct{A: "adv", T: 4000})
	nl := c.anyLeader()
	for i := 0; i < 3 && (nl == 0 || nl == ldr) && !c.failed(); i++ {
		c.step(vAct{A: "adv", T: 1500})
		nl = 0
		for _, id := range c.leaders() {
			if id != ldr {
				nl = id
			}
		}
	}
	if nl == 0 || nl == ldr {
		c.step(vAct{A: "heal"})
		return
	}
	c.burst(rt, nl, rapid.IntRange(12, 30).Draw(rt, "newEntries"), rapid.IntRange(80, 200).Draw(rt, "newpad"))
	c.step(vAct{A: "snap", N: nl, K: 0})
	c.step(vAct{A: "adv", T: 1500})
	if rapid.Bool().Draw(rt, "snapFollowerToo") {
		for _, f := range flrs {
			if f != nl {
				c.step(vAct{A: "snap", N: f, K: 0})
				break
			}
		}
	}
	// sometimes the old leader dies inside the installation (snapshot stored, its
	// conflicting log not yet discarded) and comes back from that image
	crashPoint := ""
	if !c.blackbox {
		crashPoint = []string{"", "", "install.stored", "install.cleared", "snap.retained"}[rapid.IntRange(0, 4).Draw(rt, "crashInInstall")]
	}
	if crashPoint != "" {
		c.step(vAct{A: "crash", N: ldr, S: crashPoint, K: 1, B: rapid.Bool().Draw(rt, "fin")})
	}
	c.step(vAct{A: "heal"})
	for i := 0; i < 4 && !c.failed(); i++ {
		c.step(vAct{A: "adv", T: 1200})
	}
	if n := c.nodes[ldr]; crashPoint != "" && n != nil && n.status == nodeDown {
		c.stats.class("tpl-divergesnap-crashed-in-install")
		c.step(vAct{A: "restart", N: ldr})
		c.step(vAct{A: "adv", T: 2500})
	}
	if l := c.anyLeader(); l != 0 {
		c.burst(rt, l, rapid.IntRange(1, 6).Draw(rt, "after"), 10)
		c.step(vAct{A: "adv", T: 1500})
	}
}

// tplStaleTimeoutNow: a timeout-now request to a voter is withheld on its
// connection; the transfer times out, the leader demotes that node and the
// demotion reaches it; only then the old request arrives at what is now a
// non-voter.
func (c *cluster) tplStaleTimeoutNow(rt *rapid.T) {
	c.step(vAct{A: "free"})
	c.step(vAct{A: "adv", T: 1500})
	ldr := c.anyLeader()
	if ldr == 0 || c.blackbox {
		return
	}
	r := raftOf(c.up(ldr))
	if r == nil {
		return
	}
	cfg := r.configs.Latest.clone()
	var voters []uint64
	for _, id := range c.followersOf(ldr) {
		if nd, ok := cfg.Nodes[id]; ok && nd.Voter {
			voters = append(voters, id)
		}
	}
	if len(voters) < 2 {
		return
	}
	c.stats.class("tpl-staletimeoutnow")
	t := voters[rapid.IntRange(0, len(voters)-1).Draw(rt, "target")]
	c.step(vAct{A: "gate"})
	before := c.stats.count("wire-timeoutNow")
	c.lastTN = tnConn{}
	c.step(vAct{A: "xfer", N: ldr, M: t, T: 1000})
	for i := 0; i < 8 && c.stats.count("wire-timeoutNow") == before && !c.failed(); i++ {
		c.step(vAct{A: "dlvpair", N: ldr, M: t, K: 1})
	}
	if c.stats.count("wire-timeoutNow") == before || !c.lastTN.set || c.lastTN.to != t {
		c.step(vAct{A: "free"})
		return
	}
	tn := c.lastTN
	c.stats.class("tpl-staletimeoutnow-withheld")
	for i := 0; i < 5 && !c.failed(); i++ {
		c.step(vAct{A: "adv", T: 300})
		c.step(vAct{A: "dlvexcept", N: tn.from, M: tn.to, C: tn.seq, K: 3})
	}
	if c.anyLeader() != ldr {
		c.step(vAct{A: "free"})
		return
	}
	what := []string{"demote", "demote", "remove"}[rapid.IntRange(0, 2).Draw(rt, "what")]
	c.step(vAct{A: "cfg", N: ldr, M: t, S: what})
	for i := 0; i < 8 && !c.failed(); i++ {
		c.step(vAct{A: "adv", T: 300})
		c.step(vAct{A: "dlvexcept", N: tn.from, M: tn.to, C: tn.seq, K: 3})
	}
	// now the stale request
	c.step(vAct{A: "dlv", N: tn.from, M: tn.to, C: tn.seq, D: 0, K: 50})
	c.step(vAct{A: "adv", T: 50})
	c.step(vAct{A: "free"})
	c.step(vAct{A: "adv", T: 3000})
}

func (c *cluster) rf(id uint64) *Raft { return raftOf(c.up(id)) }

func (c *cluster) tplBail() {
	c.step(vAct{A: "heal"})
	c.step(vAct{A: "free"})
	c.step(vAct{A: "adv", T: 3000})
}

// tplBounce: a node that believes in a live leader refuses its vote, and no time
// passes in the message-by-message templates: such voters are killed and
// restarted, after which they know no leader (killed, not shut down: a leader's
// graceful shutdown waits for read deadlines, i.e. lets virtual time run).
func (c *cluster) tplBounce(ids ...uint64) {
	for _, id := range ids {
		c.step(vAct{A: "crash", N: id, B: true})
		c.step(vAct{A: "restart", N: id})
	}
}

// tplCampaign: fire the node's election timer until it has a term above minTerm
// and wins through the listed nodes (requests written on connections to previous
// incarnations are lost: the next election dials again).
func (c *cluster) tplCampaign(cand uint64, minTerm uint64, among []uint64) {
	rf := c.rf
	for k := 0; k < 4 && rf(cand) != nil && rf(cand).state != Leader && !c.failed(); k++ {
		c.step(vAct{A: "poke", N: cand, S: "main"})
		if rf(cand) == nil || rf(cand).term <= minTerm {
			continue
		}
		for i := 0; i < 6 && rf(cand) != nil && rf(cand).state == Candidate && !c.failed(); i++ {
			c.step(vAct{A: "dlvamong", L: among, K: 1})
		}
	}
}

// tplCfgRevert: a lagging voter B receives, in one batch, a committed
// configuration C2 and an uncommitted one C3 (so its own commit index is still
// below both); a new leader that never saw C3 then overwrites C3's index. B has
// to fall back to C2. 5 voters + 1 provisioned node, time (almost) standing still.
func (c *cluster) tplCfgRevert(rt *rapid.T) {
	c.step(vAct{A: "free"})
	c.step(vAct{A: "adv", T: 1500})
	A := c.anyLeader()
	if A == 0 || c.blackbox || len(c.downIDs()) > 0 {
		return
	}
	ra := c.rf(A)
	if ra == nil || ra.configs.Latest.numVoters() != 5 || !ra.configs.IsCommitted() || len(ra.configs.Latest.Nodes) != 5 {
		return
	}
	var flr []uint64
	var X uint64
	for _, id := range c.followersOf(A) {
		if nd, ok := ra.configs.Latest.Nodes[id]; ok && nd.Voter {
			flr = append(flr, id)
		} else if !ok && X == 0 {
			X = id
		}
	}
	if len(flr) != 4 || X == 0 {
		return
	}
	perm := rapid.Permutation(flr).Draw(rt, "roles")
	B, C, D, E := perm[0], perm[1], perm[2], perm[3]
	c.stats.class("tpl-cfgrevert")
	rf, bail := c.rf, c.tplBail
	c.step(vAct{A: "gate"})
	c.step(vAct{A: "dlvamong", L: []uint64{A, B, C, D, E}, K: 6}) // quiesce
	// B's connection is broken, so that it is caught up later in one batch
	c.step(vAct{A: "cut", N: A, M: B, B: true})
	rest := []uint64{A, C, D, E, X}
	c.step(vAct{A: "cfg", N: A, M: X, S: "addnv"})
	for i := 0; i < 8 && !c.failed() && !(ra.configs.IsCommitted() && ra.configs.Latest.Nodes[X].ID == X); i++ {
		c.step(vAct{A: "dlvamong", L: rest, K: 1})
	}
	if c.failed() || ra.state != Leader || !ra.configs.IsCommitted() || ra.configs.Latest.Nodes[X].ID != X {
		bail()
		return
	}
	c2 := ra.configs.Latest.Index
	if rapid.Bool().Draw(rt, "updBetween") {
		c.step(vAct{A: "upd", N: A, K: 1, T: 8})
		c.step(vAct{A: "dlvamong", L: rest, K: 3})
	}
	// C3: appended by A, seen by nobody but B
	c.step(vAct{A: "cfg", N: A, M: X, S: "promote"})
	c3 := ra.configs.Latest.Index
	if c.failed() || c3 <= c2 || ra.state != Leader {
		bail()
		return
	}
	c.step(vAct{A: "uncut", N: A, M: B})
	for i := 0; i < 30 && rf(B) != nil && rf(B).lastLogIndex < c3 && ra.state == Leader && !c.failed(); i++ {
		c.step(vAct{A: "adv", T: 10}) // the replication's redial back-off
		c.step(vAct{A: "dlvamong", L: []uint64{A, B}, K: 1})
	}
	if c.failed() || rf(B) == nil || rf(B).lastLogIndex != c3 || rf(B).commitIndex >= c2 {
		bail()
		return
	}
	c.stats.class("tpl-cfgrevert-two-uncommitted-configs")
	c.step(vAct{A: "cut", N: A, M: B, B: true})
	if rapid.Bool().Draw(rt, "restartB") {
		// what B falls back to must also survive a restart (it is re-derived from the log)
		c.tplBounce(B)
		if rf(B) == nil || rf(B).lastLogIndex != c3 {
			bail()
			return
		}
		c.stats.class("tpl-cfgrevert-restarted")
	}
	// C: leader of a later term through D and E, none of whom has C3
	c.tplBounce(D, E)
	if rf(D) == nil || rf(E) == nil {
		bail()
		return
	}
	c.tplCampaign(C, 0, []uint64{C, D, E})
	if c.failed() || rf(C) == nil || rf(C).state != Leader || rf(C).lastLogIndex != c3 {
		bail()
		return
	}
	ct := rf(C).term
	for i := 0; i < 12 && rf(B) != nil && rf(B).lastLogTerm != ct && !c.failed(); i++ {
		c.step(vAct{A: "dlvamong", L: []uint64{C, B}, K: 1})
	}
	if !c.failed() && rf(B) != nil && rf(B).lastLogTerm == ct {
		c.stats.class("tpl-cfgrevert-complete")
	}
	bail()
}

// tplFigure8: the schedule of Figure 8 of the Raft paper on 5 voters, driven
// message by message with virtual time standing still. A (leader, term t)
// replicates X to B only; E is elected in a later term by C and D and appends
// its own entry at X's index, replicated to nobody; B is elected after that by C
// and D and brings X onto a majority (A confirms that it holds X, C receives X
// together with B's no-op, D receives nothing); then E is elected again by D and
// A. X was never committed, so E may overwrite it: unless B counted replicas of
// the old-term entry.
func (c *cluster) tplFigure8(rt *rapid.T) {
	c.step(vAct{A: "free"})
	c.step(vAct{A: "adv", T: 1500})
	A := c.anyLeader()
	if A == 0 || c.blackbox || len(c.downIDs()) > 0 {
		return
	}
	ra := raftOf(c.up(A))
	if ra == nil {
		return
	}
	var flr []uint64
	for _, id := range c.followersOf(A) {
		if nd, ok := ra.configs.Latest.Nodes[id]; ok && nd.Voter {
			flr = append(flr, id)
		}
	}
	if len(flr) != 4 || ra.configs.Latest.numVoters() != 5 || !ra.configs.IsCommitted() {
		return
	}
	// roles drawn among the followers
	perm := rapid.Permutation(flr).Draw(rt, "roles")
	B, C, D, E := perm[0], perm[1], perm[2], perm[3]
	c.stats.class("tpl-figure8")
	bail, rf, bounce, campaign := c.tplBail, c.rf, c.tplBounce, c.tplCampaign
	c.step(vAct{A: "gate"})
	c.step(vAct{A: "dlvamong", L: []uint64{A, B, C, D, E}, K: 6}) // quiesce
	x := ra.lastLogIndex + 1
	c.step(vAct{A: "upd", N: A, K: 1, T: 8})
	for i := 0; i < 4 && rf(B) != nil && rf(B).lastLogIndex < x && !c.failed(); i++ {
		c.step(vAct{A: "dlvamong", L: []uint64{A, B}, K: 1})
	}
	if c.failed() || rf(B) == nil || rf(B).lastLogIndex != x || ra.commitIndex >= x || ra.state != Leader {
		bail()
		return
	}
	// (a deposed leader waits, inside the handler that deposed it, for its
	// replication goroutines; one that sits in a read only leaves at its read
	// deadline, and time stands still here: A's and later E's connections to
	// nodes that will not answer are severed beforehand)
	for _, id := range []uint64{C, D, E} {
		c.step(vAct{A: "cut", N: A, M: id, B: true})
	}
	// E: leader of a later term through C and D
	bounce(C, D)
	if rf(C) == nil || rf(D) == nil {
		bail()
		return
	}
	campaign(E, 0, []uint64{E, C, D})
	if c.failed() || rf(E) == nil || rf(E).state != Leader || rf(E).lastLogIndex != x || rf(C).lastLogIndex >= x || rf(D).lastLogIndex >= x {
		bail()
		return
	}
	et := rf(E).term
	// B: leader after that, again through C and D (who never heard from E as leader)
	campaign(B, et, []uint64{B, C, D})
	if c.failed() || rf(B) == nil || rf(B).state != Leader || rf(B).term <= et {
		bail()
		return
	}
	c.stats.class("tpl-figure8-second-leader")
	// X and B's no-op reach C; A only confirms that it holds X
	for i := 0; i < 10 && rf(C) != nil && rf(C).lastLogIndex < x+1 && !c.failed(); i++ {
		c.step(vAct{A: "dlvamong", L: []uint64{B, C}, K: 1})
	}
	c.step(vAct{A: "dlvamong", L: []uint64{B, C}, K: 2})
	matchOfA := func() uint64 {
		if l := rf(B); l != nil && l.state == Leader && l.ldr != nil {
			if rp := l.ldr.repls[A]; rp != nil {
				return rp.status.matchIndex
			}
		}
		return 0
	}
	for i := 0; i < 8 && matchOfA() < x && rf(A) != nil && rf(A).lastLogIndex == x && !c.failed(); i++ {
		c.step(vAct{A: "dlvamong", L: []uint64{B, A}, K: 1})
	}
	if c.failed() || rf(A) == nil || rf(A).lastLogIndex != x || matchOfA() != x || rf(B).state != Leader || rf(D).lastLogIndex >= x {
		bail()
		return
	}
	c.stats.class("tpl-figure8-majority-holds-old-entry")
	// E loses contact with everybody and gives up leadership, keeping its entry
	for _, id := range []uint64{B, C, D} {
		c.step(vAct{A: "cut", N: E, M: id, B: true})
	}
	// A forgets its leader
	bounce(A)
	if c.failed() || rf(E) == nil || rf(A) == nil || rf(E).state == Leader || rf(E).lastLogIndex != x || rf(E).lastLogTerm != et || rf(A).lastLogIndex != x {
		bail()
		return
	}
	c.step(vAct{A: "uncut", N: E, M: D})
	c.step(vAct{A: "uncut", N: E, M: A})
	campaign(E, rf(B).term, []uint64{E, D, A})
	if !c.failed() && rf(E) != nil && rf(E).state == Leader {
		c.stats.class("tpl-figure8-complete")
		for i := 0; i < 6 && !c.failed(); i++ {
			c.step(vAct{A: "dlvamong", L: []uint64{E, D, A}, K: 1})
		}
	}
	bail()
}

// tplSnapRace: a node's snapshot goroutine is parked at one of its hook points
// while more updates are committed and applied there; after the snapshot is
// stored the node is restarted, i.e. restores from it and replays the suffix.
func (c *cluster) tplSnapRace(rt *rapid.T) {
	c.step(vAct{A: "free"})
	c.step(vAct{A: "adv", T: 1500})
	ldr := c.anyLeader()
	if ldr == 0 || c.blackbox {
		return
	}
	c.stats.class("tpl-snaprace")
	x := ldr
	if flrs := c.followersOf(ldr); len(flrs) > 0 && rapid.Bool().Draw(rt, "onFollower") {
		x = flrs[rapid.IntRange(0, len(flrs)-1).Draw(rt, "x")]
	}
	c.burst(rt, ldr, rapid.IntRange(3, 25).Draw(rt, "before"), rapid.IntRange(0, 80).Draw(rt, "pad"))
	point := []string{"snap.begin", "snap.fsmdone", "fsm.snapshot", "fsm.snapshot", "snap.premeta"}[rapid.IntRange(0, 4).Draw(rt, "point")]
	c.step(vAct{A: "hold", N: x, S: point})
	c.step(vAct{A: "snap", N: x, K: 0})
	c.step(vAct{A: "adv", T: 50})
	c.burst(rt, ldr, rapid.IntRange(1, 12).Draw(rt, "during"), 10)
	c.step(vAct{A: "unhold", N: x, S: point})
	c.step(vAct{A: "adv", T: 300})
	if rapid.Bool().Draw(rt, "moreAfter") {
		c.burst(rt, ldr, rapid.IntRange(1, 6).Draw(rt, "after"), 10)
	}
	if rapid.Bool().Draw(rt, "kill") {
		c.step(vAct{A: "crash", N: x, B: rapid.Bool().Draw(rt, "fin")})
	} else {
		c.step(vAct{A: "stop", N: x})
	}
	c.step(vAct{A: "adv", T: 300})
	c.step(vAct{A: "restart", N: x})
	c.step(vAct{A: "adv", T: 2500})
}

// tplLeaderConnClosed: a second connection from the leader to a follower (the
// one a timeout-now request went out on) is closed while the leader's
// replication keeps the follower up to date; then another follower, whose own
// timer fired, asks for the vote without permission.
func (c *cluster) tplLeaderConnClosed(rt *rapid.T) {
	c.step(vAct{A: "free"})
	c.step(vAct{A: "adv", T: 1500})
	ldr := c.anyLeader()
	if ldr == 0 || c.blackbox {
		return
	}
	r := c.rf(ldr)
	if r == nil {
		return
	}
	var voters []uint64
	for _, id := range c.followersOf(ldr) {
		if nd, ok := r.configs.Latest.Nodes[id]; ok && nd.Voter {
			voters = append(voters, id)
		}
	}
	if len(voters) < 2 || !r.configs.IsCommitted() {
		return
	}
	perm := rapid.Permutation(voters).Draw(rt, "roles")
	f, x := perm[0], perm[1]
	c.stats.class("tpl-leaderconnclosed")
	// every delivery in here is scripted: the clock-based stability oracle judges
	c.strictStability = true
	defer func() { c.strictStability = false }()
	c.step(vAct{A: "gate"})
	c.step(vAct{A: "dlvamong", L: c.upIDs(), K: 6}) // quiesce
	if len(voters) >= 3 && rapid.Bool().Draw(rt, "demotedInstead") {
		// variant: f learns of its own demotion from the leader; what it does with its
		// election timer from then on decides whether it forgets the leader too early
		c.step(vAct{A: "adv", T: int64(rapid.SampledFrom([]int{700, 900, 950}).Draw(rt, "timerAge"))})
		c.step(vAct{A: "cfg", N: ldr, M: f, S: "demote"})
		// (only f hears of it: x still counts f as a voter and will ask for its vote)
		for i := 0; i < 4 && !c.failed(); i++ {
			c.step(vAct{A: "dlvamong", L: []uint64{ldr, f}, K: 1})
		}
		if fr := c.rf(f); fr == nil || fr.configs.Latest.isVoter(f) || c.anyLeader() != ldr {
			c.tplBail()
			return
		}
		c.stats.class("tpl-leaderconnclosed-demoted")
		c.step(vAct{A: "adv", T: int64(rapid.SampledFrom([]int{600, 800, 950}).Draw(rt, "afterDemotion"))})
		c.step(vAct{A: "poke", N: x, S: "main"})
		for i := 0; i < 6 && !c.failed(); i++ {
			c.step(vAct{A: "dlvpair", N: x, M: f, K: 1})
		}
		c.tplBail()
		return
	}
	before := c.stats.count("wire-timeoutNow")
	c.lastTN = tnConn{}
	c.step(vAct{A: "xfer", N: ldr, M: f, T: 300})
	for i := 0; i < 8 && c.stats.count("wire-timeoutNow") == before && !c.failed(); i++ {
		c.step(vAct{A: "dlvpair", N: ldr, M: f, K: 1})
	}
	if c.stats.count("wire-timeoutNow") == before || !c.lastTN.set || c.lastTN.to != f {
		c.tplBail()
		return
	}
	tn := c.lastTN
	// the request never arrives; the transfer times out, the RPC gives up and closes
	// its connection; replication goes on meanwhile
	for i := 0; i < 3 && !c.failed(); i++ {
		c.step(vAct{A: "adv", T: 150})
		c.step(vAct{A: "dlvexcept", N: tn.from, M: tn.to, C: tn.seq, K: 3})
	}
	if c.anyLeader() != ldr {
		c.tplBail()
		return
	}
	// the follower sees that connection end (the request bytes go with it)
	c.step(vAct{A: "sever", N: tn.from, M: tn.to, C: tn.seq})
	c.step(vAct{A: "dlvexcept", N: tn.from, M: tn.to, C: tn.seq, K: 2})
	c.stats.class("tpl-leaderconnclosed-closed")
	// x's election timer fires; its request reaches f alone
	c.step(vAct{A: "poke", N: x, S: "main"})
	for i := 0; i < 6 && !c.failed(); i++ {
		c.step(vAct{A: "dlvpair", N: x, M: f, K: 1})
	}
	c.tplBail()
}

var templates = map[string]func(c *cluster, rt *rapid.T){
	"leaderconnclosed": (*cluster).tplLeaderConnClosed,
	"snaprace":        (*cluster).tplSnapRace,
	"cfgrevert":       (*cluster).tplCfgRevert,
	"figure8":         (*cluster).tplFigure8,
	"staletimeoutnow": (*cluster).tplStaleTimeoutNow,
	"divergesnap":  (*cluster).tplDivergeSnap,
	"lagsnap":      (*cluster).tplLagSnap,
	"staleinstall": (*cluster).tplStaleInstall,
	"crashpoint":   (*cluster).tplCrashPoint,
}
