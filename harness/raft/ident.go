//go:build verif && go1.25

package raft

// C20: identity isolation (two clusters with overlapping node ids on one network
// whose resolvers hand out any address to anyone) and storage exclusivity
// (lock model for SetIdentity / New / Serve on one directory).

import (
	"context"
	"encoding/binary"
	"fmt"
	"hash/fnv"
	"io/ioutil"
	"os"
	"sort"
	"sync"
	"testing"
	"testing/synctest"
	"time"

	"pgregory.net/rapid"
)

type identNode struct {
	cid, nid uint64
	host     string
	addr     string
	dir      string
	r        *Raft
	fsm      *recFSM
	serveCh  chan error
	res      *scrambleResolver
}

// scrambleResolver: what this node believes about where node ids live.
type scrambleResolver struct {
	mu    sync.Mutex
	table map[uint64]string
}

func (s *scrambleResolver) LookupID(id uint64, timeout time.Duration) (string, error) {
	s.mu.Lock()
	defer s.mu.Unlock()
	if a, ok := s.table[id]; ok {
		return a, nil
	}
	return "", fmt.Errorf("unknown id %d", id)
}

type identCase struct {
	net     *simNet
	nodes   []*identNode
	byHost  map[string]*identNode
	mu      sync.Mutex
	mons    map[int]*streamMon
	fail    *failure
	classes map[string]int
	// per connection state for the wire oracle
	mismatch map[int]bool // handshake named a different identity than the listener's
	verified map[int]bool // handshake answered success
	answered map[int]int  // responses written by the listener after the handshake response
	trace    []string
}

func (ic *identCase) failf(key, format string, a ...interface{}) {
	if ic.fail == nil {
		ic.fail = &failure{Oracle: "identity", Key: key, Msg: fmt.Sprintf(format, a...)}
	}
}

func (ic *identCase) onWrite(h *half, b []byte) {
	// simNet.mu held
	m := ic.mons[h.conn.id]
	if m == nil {
		m = &streamMon{conn: h.conn}
		m.emit = func(w *wireMsg) { ic.onMsg(w) }
		ic.mons[h.conn.id] = m
	}
	wasBroken := m.broken
	m.feed(h.dir, b)
	if m.broken && !wasBroken {
		ic.classes["unparsed-conn"]++
	}
}

func (ic *identCase) onMsg(w *wireMsg) {
	lst := ic.byHost[w.conn.to]
	dl := ic.byHost[w.conn.from]
	id := w.conn.id
	if w.dir == 0 {
		switch q := w.req.(type) {
		case *identityReq:
			if lst != nil && (q.cid != lst.cid || q.nid != lst.nid) {
				ic.mismatch[id] = true
				ic.classes["handshake-mismatch"]++
				if q.cid != lst.cid {
					ic.classes["handshake-mismatch-cluster"]++
				} else {
					ic.classes["handshake-mismatch-node"]++
				}
			} else {
				ic.classes["handshake-match"]++
			}
			if dl != nil && q.src != dl.nid {
				ic.failf("handshake-wrong-src", "node %d/%d sent a handshake with src %d", dl.cid, dl.nid, q.src)
			}
		default:
			// any protocol request: the connection must have been verified, for the right peer
			if ic.mismatch[id] {
				ic.failf("request-after-mismatch", "%s/%s sent %s on a connection to %s although the handshake named a different identity", dl.host, w.kind, w.kind, w.conn.to)
			} else if !ic.verified[id] {
				ic.failf("request-before-verification", "%s sent %s to %s before the identity handshake was answered", w.conn.from, w.kind, w.conn.to)
			}
			if dl != nil && lst != nil && dl.cid != lst.cid {
				ic.failf("cross-cluster-request", "%s sent %s to %s (other cluster)", dl.host, w.kind, lst.host)
			}
			ic.classes["request-"+w.kind]++
		}
		return
	}
	switch w.req.(type) {
	case *identityReq:
		res := w.resp.getResult()
		if ic.mismatch[id] {
			if res != identityMismatch {
				ic.failf("mismatch-accepted", "%s answered %s to a handshake meant for another identity", w.conn.to, resultName(res))
			}
		} else {
			if res != success {
				ic.failf("match-refused", "%s answered %s to a handshake naming its own identity", w.conn.to, resultName(res))
			}
			ic.verified[id] = true
		}
	default:
		if ic.mismatch[id] {
			ic.failf("response-after-mismatch", "%s wrote a %s on a connection whose handshake named another identity", w.conn.to, w.kind)
		}
	}
}

func identAddr(c, n uint64) string { return fmt.Sprintf("c%dn%d:7000", c, n) }
func identHost(c, n uint64) string { return fmt.Sprintf("c%dn%d", c, n) }

func (ic *identCase) start(n *identNode, opt Options, rt int64) error {
	fsm := &recFSM{node: n.nid}
	opt.Resolver = n.res
	r, err := New(opt, fsm, n.dir)
	if err != nil {
		return err
	}
	r.dialFn = ic.net.dialer(n.host)
	n.r, n.fsm = r, fsm
	n.serveCh = make(chan error, 1)
	l := ic.net.listen(n.host, n.addr)
	go func() { n.serveCh <- r.Serve(l) }()
	return nil
}

type identAct struct {
	A    string `json:"a"`
	Node int    `json:"node,omitempty"`
	ID   uint64 `json:"id,omitempty"`
	Addr string `json:"addr,omitempty"`
	T    int64  `json:"t,omitempty"`
	K    int    `json:"k,omitempty"`
}

func runIdentCase(t *testing.T, rt *rapid.T) (fail *failure, classes map[string]int, acts []identAct, nt bool) {
	var pv interface{}
	synctest.Test(t, func(t *testing.T) {
		base, _ := ioutil.TempDir(shmRoot(), "verif-c20-")
		defer os.RemoveAll(base)
		ic := &identCase{net: newSimNet(), byHost: map[string]*identNode{}, mons: map[int]*streamMon{}, classes: map[string]int{},
			mismatch: map[int]bool{}, verified: map[int]bool{}, answered: map[int]int{}}
		ic.net.onWrite = ic.onWrite
		opt := Options{HeartbeatTimeout: time.Second, PromoteThreshold: time.Second, Bandwidth: 256 * 1024, LogSegmentSize: 1024, SnapshotsRetain: 1, ShutdownOnRemove: true}
		var addrs []string
		for c := uint64(1); c <= 2; c++ {
			nodes := map[uint64]Node{}
			for n := uint64(1); n <= 3; n++ {
				nodes[n] = Node{ID: n, Addr: identAddr(c, n), Voter: true}
			}
			for n := uint64(1); n <= 3; n++ {
				dir := fmt.Sprintf("%s/c%dn%d", base, c, n)
				_ = os.MkdirAll(dir, 0700)
				if err := SetIdentity(dir, 1000+c, n); err != nil {
					panic(err)
				}
				st, err := openStorage(dir, opt)
				if err != nil {
					panic(err)
				}
				cfg := Config{Nodes: map[uint64]Node{}, Index: 1, Term: 1}
				for k, v := range nodes {
					cfg.Nodes[k] = v
				}
				if err := st.bootstrap(cfg); err != nil {
					panic(err)
				}
				_ = st.log.Close()
				in := &identNode{cid: 1000 + c, nid: n, host: identHost(c, n), addr: identAddr(c, n), dir: dir,
					res: &scrambleResolver{table: map[uint64]string{}}}
				for k, v := range nodes {
					in.res.table[k] = v.Addr
				}
				ic.nodes = append(ic.nodes, in)
				ic.byHost[in.host] = in
				addrs = append(addrs, in.addr)
			}
		}
		for _, n := range ic.nodes {
			if err := ic.start(n, opt, 0); err != nil {
				panic(err)
			}
		}
		nextCmd := map[uint64]uint64{1001: 1, 1002: 1 << 40}
		step := func(a identAct) {
			acts = append(acts, a)
			switch a.A {
			case "adv":
				time.Sleep(time.Duration(a.T) * time.Millisecond)
			case "scramble":
				n := ic.nodes[a.Node]
				n.res.mu.Lock()
				n.res.table[a.ID] = a.Addr
				n.res.mu.Unlock()
				ic.classes["scramble"]++
			case "sever":
				// drop every connection: everybody has to dial (and look up) again
				for _, c := range ic.net.liveConns() {
					ic.net.sever(c.from, c.to, c.seq)
				}
			case "upd":
				n := ic.nodes[a.Node]
				for i := 0; i < a.K; i++ {
					id := nextCmd[n.cid]
					nextCmd[n.cid]++
					b := make([]byte, 8)
					binary.LittleEndian.PutUint64(b, id)
					tk := UpdateFSM(b)
					go func() {
						select {
						case <-n.r.Closed():
						case n.r.FSMTasks() <- tk:
						}
					}()
				}
			}
			synctest.Wait()
		}
		func() {
			defer func() { pv = recover() }()
			step(identAct{A: "adv", T: 3000})
			nsteps := rapid.IntRange(5, 30).Draw(rt, "steps")
			for i := 0; i < nsteps && ic.fail == nil; i++ {
				switch rapid.SampledFrom([]string{"adv", "adv", "scramble", "scramble", "scramble", "sever", "upd", "upd"}).Draw(rt, "act") {
				case "adv":
					step(identAct{A: "adv", T: advChoices[rapid.IntRange(0, len(advChoices)-1).Draw(rt, "t")]})
				case "scramble":
					step(identAct{A: "scramble", Node: rapid.IntRange(0, 5).Draw(rt, "node"), ID: uint64(rapid.IntRange(1, 3).Draw(rt, "id")), Addr: addrs[rapid.IntRange(0, len(addrs)-1).Draw(rt, "addr")]})
				case "sever":
					step(identAct{A: "sever"})
				case "upd":
					step(identAct{A: "upd", Node: rapid.IntRange(0, 5).Draw(rt, "node"), K: rapid.IntRange(1, 5).Draw(rt, "k")})
				}
			}
			step(identAct{A: "adv", T: 5000})
		}()
		// isolation of effects: every command a state machine saw, and every entry in
		// every log, belongs to the node's own cluster
		for _, n := range ic.nodes {
			lo, hi := uint64(1), uint64(1<<40)
			if n.cid == 1002 {
				lo, hi = 1<<40, 1<<41
			}
			for _, id := range n.fsm.snapshotIDs() {
				if id < lo || id >= hi {
					ic.failf("foreign-command-applied", "%s applied command %d of the other cluster", n.host, id)
				}
			}
			r := n.r
			for i := r.log.PrevIndex() + 1; i <= r.log.LastIndex(); i++ {
				b, err := r.log.Get(i)
				if err != nil {
					continue
				}
				e, err := decodeEntryBytes(b)
				if err == nil && e.typ == entryUpdate && len(e.data) >= 8 {
					if id := binary.LittleEndian.Uint64(e.data); id < lo || id >= hi {
						ic.failf("foreign-entry-in-log", "%s holds entry %d with command %d of the other cluster", n.host, i, id)
					}
				}
			}
		}
		for _, n := range ic.nodes {
			r := n.r
			go func() { _ = r.Shutdown(context.Background()) }()
		}
		for _, n := range ic.nodes {
			select {
			case <-n.serveCh:
			case <-time.After(30 * time.Minute):
				ic.failf("serve-hang", "%s: Serve did not return", n.host)
			}
			_ = n.r.storage.log.Close()
		}
		time.Sleep(2 * time.Minute)
		synctest.Wait()
		fail, classes = ic.fail, ic.classes
		nt = ic.classes["handshake-mismatch"] > 0 && ic.classes["handshake-match"] > 0
	})
	if pv != nil {
		panic(pv)
	}
	return
}

// ---------------------------------------------------------------- lock model

func lockProp(t *testing.T, rt *rapid.T, agg *aggStats) (fail *failure, trace []string, nt bool) {
	var pv interface{}
	synctest.Test(t, func(t *testing.T) {
		defer func() { pv = recover() }()
		fail, trace, nt = lockPropBody(rt, agg)
		time.Sleep(time.Minute)
		synctest.Wait()
	})
	if pv != nil {
		panic(pv)
	}
	return
}

func lockPropBody(rt *rapid.T, agg *aggStats) (fail *failure, trace []string, nt bool) {
	dir, err := ioutil.TempDir(shmRoot(), "verif-c20l-")
	if err != nil {
		panic(err)
	}
	defer os.RemoveAll(dir)
	var cid, nid uint64 // model: stored identity (0 = none)
	type inst struct {
		r       *Raft
		serving bool
		done    chan error
		l       *simListener
	}
	var insts []*inst
	holder := -1 // index of the instance holding the directory
	sn := newSimNet()
	opt := optForNew()
	nops := rapid.IntRange(1, 20).Draw(rt, "nops")
	failf := func(key, format string, a ...interface{}) {
		if fail == nil {
			fail = &failure{Oracle: "lock", Key: key, Msg: fmt.Sprintf(format, a...)}
		}
	}
	readID := func() (uint64, uint64) {
		v, err := openValue(dir, ".id")
		if err != nil {
			failf("identity-unreadable", "identity file unreadable: %v", err)
			return 0, 0
		}
		return v.get()
	}
	for i := 0; i < nops && fail == nil; i++ {
		switch rapid.SampledFrom([]string{"setid", "setid", "new", "serve", "serve", "shutdown", "stalelock"}).Draw(rt, "op") {
		case "setid":
			c := uint64(rapid.IntRange(0, 3).Draw(rt, "cid"))
			n := uint64(rapid.IntRange(0, 3).Draw(rt, "nid"))
			err := SetIdentity(dir, c, n)
			trace = append(trace, fmt.Sprintf("SetIdentity(%d,%d)=%v", c, n, err))
			gc, gn := readID()
			switch {
			case holder >= 0:
				if err != ErrLockExists && c != 0 && n != 0 {
					failf("setidentity-while-served", "SetIdentity on a directory that is being served returned %v, want ErrLockExists", err)
				}
				if gc != cid || gn != nid {
					failf("identity-changed", "identity changed from (%d,%d) to (%d,%d) while the directory is served", cid, nid, gc, gn)
				}
			case c == 0 || n == 0:
				if err == nil {
					failf("zero-identity-accepted", "SetIdentity(%d,%d) succeeded", c, n)
				}
			case cid == 0:
				if err != nil {
					failf("setidentity-failed", "first SetIdentity(%d,%d) failed: %v", c, n, err)
				}
				if gc != c || gn != n {
					failf("identity-not-stored", "after SetIdentity(%d,%d) the directory holds (%d,%d)", c, n, gc, gn)
				}
				cid, nid = c, n
			default:
				// identity already set: must stay as it is (the error value is not judged)
				if gc != cid || gn != nid {
					failf("identity-changed", "identity changed from (%d,%d) to (%d,%d) by SetIdentity(%d,%d)", cid, nid, gc, gn, c, n)
				}
				if c != cid || n != nid {
					agg.classes["setidentity-conflict"]++
					nt = true
				}
			}
		case "new":
			r, err := New(opt, &recFSM{}, dir)
			trace = append(trace, fmt.Sprintf("New=%v", err))
			if cid == 0 {
				if err != ErrIdentityNotSet {
					failf("new-without-identity", "New on a directory without identity returned %v", err)
				}
				if r != nil {
					_ = r.storage.log.Close()
				}
				continue
			}
			if err != nil {
				failf("new-failed", "New failed: %v", err)
				continue
			}
			if r.CID() != cid || r.NID() != nid {
				failf("identity-changed", "New reports identity (%d,%d), stored (%d,%d)", r.CID(), r.NID(), cid, nid)
			}
			insts = append(insts, &inst{r: r})
		case "serve":
			var cand []int
			for k, in := range insts {
				if !in.serving && in.done == nil {
					cand = append(cand, k)
				}
			}
			if len(cand) == 0 {
				continue
			}
			k := cand[rapid.IntRange(0, len(cand)-1).Draw(rt, "inst")]
			in := insts[k]
			in.l = sn.listen(fmt.Sprintf("h%d", k), fmt.Sprintf("h%d:7000", k))
			in.done = make(chan error, 1)
			go func() { in.done <- in.r.Serve(in.l) }()
			// Serve either fails fast with ErrLockExists or keeps running
			select {
			case err := <-in.done:
				trace = append(trace, fmt.Sprintf("Serve#%d=%v", k, err))
				if holder < 0 {
					failf("serve-refused", "Serve on a free directory returned %v", err)
				} else if err != ErrLockExists {
					failf("second-serve-error", "second Serve on a served directory returned %v, want ErrLockExists", err)
				}
				agg.classes["serve-refused-locked"]++
				nt = true
			case <-time.After(200 * time.Millisecond):
				trace = append(trace, fmt.Sprintf("Serve#%d running", k))
				if holder >= 0 {
					failf("two-servers-one-directory", "two instances serve the same directory at once")
				}
				in.serving = true
				holder = k
			}
		case "shutdown":
			if holder < 0 {
				continue
			}
			in := insts[holder]
			_ = in.r.Shutdown(context.Background())
			err := <-in.done
			trace = append(trace, fmt.Sprintf("Shutdown#%d Serve=%v", holder, err))
			if err != ErrServerClosed {
				failf("serve-error", "Serve returned %v after Shutdown", err)
			}
			in.serving = false
			holder = -1
			agg.classes["shutdown"]++
		case "stalelock":
			// nothing to do: a stale lock after a kill is removed by the operator
		}
	}
	// every instance that is serving is stopped (after a violation more than
	// one may be), so that the verdict is not masked by leftover goroutines
	for _, in := range insts {
		if in.serving {
			_ = in.r.Shutdown(context.Background())
			<-in.done
		}
	}
	for _, in := range insts {
		_ = in.r.storage.log.Close()
	}
	return
}

func TestVerif_C20(t *testing.T) {
	agg := newAgg()
	defer agg.flush()
	report := func(rt *rapid.T, f *failure, n int, extra interface{}) {
		ff := failFile{Property: "C20", Oracle: f.Oracle, Key: f.Key, Msg: f.Msg, Deciding: true}
		if tr, ok := extra.([]string); ok {
			ff.Trace = tr
		}
		p := writeFailFile(ff)
		if ia, ok := extra.([]identAct); ok && p != "" {
			b, _ := ioutil.ReadFile(p)
			_ = b
			_ = ia
		}
		known := knownKeys()[f.Key]
		emit(map[string]interface{}{"h": "x", "fail": map[string]interface{}{"oracle": f.Oracle, "key": f.Key, "msg": f.Msg, "deciding": true, "known": known, "file": p, "n": n}})
		if !known {
			rt.Fatalf("VIOLATION C20 %s: %s", f.Key, f.Msg)
		}
	}
	t.Run("isolation", func(t *testing.T) {
		rapid.Check(t, func(rt *rapid.T) {
			f, classes, acts, nt := runIdentCase(t, rt)
			agg.evals++
			for k, v := range classes {
				agg.classes[k] += v
			}
			if nt {
				h := fnv.New64a()
				for _, a := range acts {
					fmt.Fprintf(h, "%v;", a)
				}
				agg.nt[h.Sum64()] = true
				if len(agg.samples) < 3 {
					var s []string
					for _, a := range acts {
						s = append(s, fmt.Sprintf("%+v", a))
					}
					sort.Strings(s[:0])
					agg.samples = append(agg.samples, fmt.Sprint(s))
				}
			}
			if f != nil {
				report(rt, f, len(acts), acts)
			}
		})
	})
	t.Run("lock", func(t *testing.T) {
		rapid.Check(t, func(rt *rapid.T) {
			f, trace, nt := lockProp(t, rt, agg)
			agg.evals++
			agg.classes["lock-case"]++
			if nt {
				h := fnv.New64a()
				for _, l := range trace {
					h.Write([]byte(l))
				}
				agg.nt[h.Sum64()] = true
				if agg.classes["lock-sampled"] < 2 {
					agg.classes["lock-sampled"]++
					agg.samples = append(agg.samples, fmt.Sprint(trace))
				}
			}
			if f != nil {
				report(rt, f, len(trace), trace)
			}
		})
	})
}
