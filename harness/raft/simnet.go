//go:build verif && go1.25

package raft

// simNet: harness-owned TCP-like network for real Raft nodes running inside a
// testing/synctest bubble. A connection is two FIFO byte streams ("halves").
// Bytes written are queued as chunks; they become readable only when released
// (gated mode: by an explicit schedule action; free mode: after a latency).
// Nothing is reordered or duplicated inside one connection.

import (
	"errors"
	"fmt"
	"io"
	"net"
	"sort"
	"sync"
	"time"
)

type simAddr string

func (a simAddr) Network() string { return "tcp" }
func (a simAddr) String() string  { return string(a) }

type simTimeoutErr struct{}

func (simTimeoutErr) Error() string   { return "simnet: i/o timeout" }
func (simTimeoutErr) Timeout() bool   { return true }
func (simTimeoutErr) Temporary() bool { return true }

var (
	errSimClosed  = errors.New("simnet: use of closed connection")
	errSimReset   = errors.New("simnet: connection reset by peer")
	errSimRefused = errors.New("simnet: connection refused")
	errSimPipe    = errors.New("simnet: broken pipe")
)

// chunk is one Write call's bytes; fin marks an orderly close by the writer.
type chunk struct {
	b   []byte
	fin bool
}

// half is one direction of a connection: writer -> reader.
type half struct {
	net     *simNet
	conn    *simConn
	dir     int // 0: dialer->listener, 1: listener->dialer
	cond    *sync.Cond
	pending []chunk // written, not yet released
	buf     []byte  // released, readable
	eof     bool    // FIN delivered
	reset   bool    // connection reset: reads and writes fail
	mon     *streamMon

	rdeadline time.Time
	rtimer    *time.Timer
}

type simConn struct {
	id       int // global dial order (scheduler dependent: never used in actions)
	seq      int // per (from,to) pair sequence number (deterministic)
	from, to string // host names: dialer, listener
	toAddr   string
	h        [2]*half
	ends     [2]*connEnd
	born     int // step at which it was dialed
}

func (c *simConn) String() string { return fmt.Sprintf("%s>%s#%d", c.from, c.to, c.seq) }

// connEnd implements net.Conn for one side.
type connEnd struct {
	c      *simConn
	side   int // 0 dialer, 1 listener side
	host   string
	rd, wr *half
	closed bool // closed locally
	dead   bool // owning process was killed: all I/O fails, nothing leaves
}

type simListener struct {
	net    *simNet
	addr   string
	host   string
	cond   *sync.Cond
	queue  []*connEnd
	closed bool
	frozen bool // owner process killed: Accept blocks until Close
}

type simNet struct {
	deliveredTo map[string]int // chunks of request bytes delivered per listener host in the current step
	mu        sync.Mutex
	listeners map[string]*simListener // addr -> listener
	conns     []*simConn
	nextID    int
	pairSeq   map[[2]string]int
	gated     bool
	latency   time.Duration           // free mode base latency
	linkDelay map[[2]string]time.Duration // extra per (from,to) host pair
	blocked   map[[2]string]bool      // free mode: hold bytes on this directed pair
	cut       map[[2]string]bool      // dials refused (unordered pair, stored both ways)
	step      *int
	onWrite   func(h *half, b []byte) // wire monitor
	writes    int
}

func newSimNet() *simNet {
	return &simNet{
		listeners: map[string]*simListener{},
		pairSeq:   map[[2]string]int{},
		linkDelay: map[[2]string]time.Duration{},
		blocked:   map[[2]string]bool{},
		cut:       map[[2]string]bool{},
		latency:   time.Millisecond,
	}
}

// ---------------------------------------------------------------- listener

func (n *simNet) listen(host, addr string) *simListener {
	n.mu.Lock()
	defer n.mu.Unlock()
	l := &simListener{net: n, addr: addr, host: host}
	l.cond = sync.NewCond(&n.mu)
	n.listeners[addr] = l
	return l
}

func (l *simListener) Accept() (net.Conn, error) {
	l.net.mu.Lock()
	defer l.net.mu.Unlock()
	for {
		if l.closed {
			return nil, errSimClosed
		}
		if len(l.queue) > 0 && !l.frozen {
			e := l.queue[0]
			l.queue = l.queue[1:]
			return e, nil
		}
		l.cond.Wait()
	}
}

func (l *simListener) Close() error {
	l.net.mu.Lock()
	defer l.net.mu.Unlock()
	if !l.closed {
		l.closed = true
		if l.net.listeners[l.addr] == l {
			delete(l.net.listeners, l.addr)
		}
		// connections never accepted are reset
		for _, e := range l.queue {
			l.net.resetLocked(e.c)
		}
		l.queue = nil
		l.cond.Broadcast()
	}
	return nil
}

func (l *simListener) Addr() net.Addr { return simAddr(l.addr) }

// ---------------------------------------------------------------- dial

func (n *simNet) dialer(host string) dialFn {
	return func(network, address string, timeout time.Duration) (net.Conn, error) {
		return n.dial(host, address)
	}
}

func (n *simNet) dial(host, address string) (net.Conn, error) {
	n.mu.Lock()
	defer n.mu.Unlock()
	l := n.listeners[address]
	if l == nil || l.closed || l.frozen {
		return nil, errSimRefused
	}
	if n.cut[[2]string{host, l.host}] {
		return nil, errSimRefused
	}
	n.nextID++
	n.pairSeq[[2]string{host, l.host}]++
	c := &simConn{id: n.nextID, seq: n.pairSeq[[2]string{host, l.host}], from: host, to: l.host, toAddr: address}
	if n.step != nil {
		c.born = *n.step
	}
	for d := 0; d < 2; d++ {
		h := &half{net: n, conn: c, dir: d}
		h.cond = sync.NewCond(&n.mu)
		c.h[d] = h
	}
	c.ends[0] = &connEnd{c: c, side: 0, host: host, rd: c.h[1], wr: c.h[0]}
	c.ends[1] = &connEnd{c: c, side: 1, host: l.host, rd: c.h[0], wr: c.h[1]}
	n.conns = append(n.conns, c)
	l.queue = append(l.queue, c.ends[1])
	l.cond.Broadcast()
	return c.ends[0], nil
}

// ---------------------------------------------------------------- net.Conn

func (e *connEnd) Read(p []byte) (int, error) {
	n := e.c.h[0].net
	n.mu.Lock()
	defer n.mu.Unlock()
	h := e.rd
	for {
		if e.closed || e.dead {
			return 0, errSimClosed
		}
		if h.reset {
			return 0, errSimReset
		}
		if len(h.buf) > 0 {
			k := copy(p, h.buf)
			h.buf = h.buf[k:]
			return k, nil
		}
		if h.eof {
			return 0, io.EOF
		}
		if !h.rdeadline.IsZero() && !time.Now().Before(h.rdeadline) {
			return 0, simTimeoutErr{}
		}
		h.cond.Wait()
	}
}

func (e *connEnd) Write(p []byte) (int, error) {
	n := e.c.h[0].net
	n.mu.Lock()
	defer n.mu.Unlock()
	if e.closed || e.dead {
		return 0, errSimClosed
	}
	h := e.wr
	if h.reset {
		return 0, errSimReset
	}
	peer := e.c.ends[1-e.side]
	if e.rd.eof && peer.closed {
		// peer closed and we were told: writing is an error
		return 0, errSimPipe
	}
	if len(p) == 0 {
		return 0, nil
	}
	b := append([]byte(nil), p...)
	n.writes++
	if n.onWrite != nil {
		n.onWrite(h, b)
	}
	if peer.closed || peer.dead {
		// nobody will ever read it
		return len(p), nil
	}
	h.pending = append(h.pending, chunk{b: b})
	n.scheduleLocked(h)
	return len(p), nil
}

func (e *connEnd) Close() error {
	n := e.c.h[0].net
	n.mu.Lock()
	defer n.mu.Unlock()
	if e.closed {
		return nil
	}
	e.closed = true
	e.rd.cond.Broadcast()
	if !e.dead && !e.wr.reset {
		e.wr.pending = append(e.wr.pending, chunk{fin: true})
		n.scheduleLocked(e.wr)
	}
	return nil
}

func (e *connEnd) LocalAddr() net.Addr  { return simAddr(e.host) }
func (e *connEnd) RemoteAddr() net.Addr { return simAddr(e.c.ends[1-e.side].host) }

func (e *connEnd) SetDeadline(t time.Time) error {
	_ = e.SetWriteDeadline(t)
	return e.SetReadDeadline(t)
}

func (e *connEnd) SetWriteDeadline(t time.Time) error {
	n := e.c.h[0].net
	n.mu.Lock()
	defer n.mu.Unlock()
	if e.closed || e.dead {
		return errSimClosed
	}
	return nil
}

func (e *connEnd) SetReadDeadline(t time.Time) error {
	n := e.c.h[0].net
	n.mu.Lock()
	defer n.mu.Unlock()
	if e.closed || e.dead {
		return errSimClosed
	}
	h := e.rd
	if h.rtimer != nil {
		h.rtimer.Stop()
		h.rtimer = nil
	}
	h.rdeadline = t
	if !t.IsZero() {
		d := time.Until(t)
		if d < 0 {
			d = 0
		}
		h.rtimer = time.AfterFunc(d, func() {
			n.mu.Lock()
			h.cond.Broadcast()
			n.mu.Unlock()
		})
	}
	return nil
}

// ---------------------------------------------------------------- control

// scheduleLocked: in free mode arrange for the head chunk to be released after
// the link latency; FIFO is preserved because each timer releases the head.
func (n *simNet) scheduleLocked(h *half) {
	if n.gated {
		return
	}
	from, to := h.conn.from, h.conn.to
	if h.dir == 1 {
		from, to = to, from
	}
	d := n.latency + n.linkDelay[[2]string{from, to}]
	time.AfterFunc(d, func() {
		n.mu.Lock()
		defer n.mu.Unlock()
		if n.gated {
			return
		}
		if n.blocked[[2]string{from, to}] {
			return
		}
		n.releaseLocked(h, 1)
	})
}

// releaseLocked makes up to k pending chunks readable; returns number released.
func (n *simNet) releaseLocked(h *half, k int) int {
	done := 0
	for done < k && len(h.pending) > 0 {
		c := h.pending[0]
		h.pending = h.pending[1:]
		if c.fin {
			h.eof = true
		} else {
			h.buf = append(h.buf, c.b...)
			if n.deliveredTo != nil {
				// request-direction bytes handed to the listener side in this step
				if h.dir == 0 {
					n.deliveredTo[h.conn.to]++
				}
			}
		}
		done++
	}
	if done > 0 {
		h.cond.Broadcast()
	}
	return done
}

func (n *simNet) resetLocked(c *simConn) {
	for _, h := range c.h {
		h.reset = true
		h.pending = nil
		h.buf = nil
		h.cond.Broadcast()
	}
}

// release k chunks on one direction of a connection.
func (n *simNet) release(from, to string, seq, dir, k int) int {
	n.mu.Lock()
	defer n.mu.Unlock()
	c := n.connLocked(from, to, seq)
	if c == nil {
		return 0
	}
	return n.releaseLocked(c.h[dir], k)
}

// releaseAll releases everything pending on every half whose (from,to) pair is
// accepted by keep; returns number of chunks released.
func (n *simNet) releaseAll(keep func(from, to string) bool) int {
	n.mu.Lock()
	defer n.mu.Unlock()
	total := 0
	for _, c := range n.conns {
		for d, h := range c.h {
			if len(h.pending) == 0 {
				continue
			}
			from, to := c.from, c.to
			if d == 1 {
				from, to = to, from
			}
			if n.blocked[[2]string{from, to}] {
				continue
			}
			if keep == nil || keep(from, to) {
				total += n.releaseLocked(h, len(h.pending))
			}
		}
	}
	return total
}

// releaseAllExcept releases everything pending except on one connection.
func (n *simNet) releaseAllExcept(cfrom, cto string, seq int) int {
	n.mu.Lock()
	defer n.mu.Unlock()
	total := 0
	for _, c := range n.conns {
		if c.from == cfrom && c.to == cto && c.seq == seq {
			continue
		}
		for d, h := range c.h {
			if len(h.pending) == 0 {
				continue
			}
			from, to := c.from, c.to
			if d == 1 {
				from, to = to, from
			}
			if n.blocked[[2]string{from, to}] {
				continue
			}
			total += n.releaseLocked(h, len(h.pending))
		}
	}
	return total
}

func (n *simNet) connLocked(from, to string, seq int) *simConn {
	for _, c := range n.conns {
		if c.seq == seq && c.from == from && c.to == to {
			return c
		}
	}
	return nil
}

// sever: both sides see a reset, in-flight bytes are lost.
func (n *simNet) sever(from, to string, seq int) bool {
	n.mu.Lock()
	defer n.mu.Unlock()
	c := n.connLocked(from, to, seq)
	if c == nil || c.h[0].reset {
		return false
	}
	n.resetLocked(c)
	return true
}

// severBetween resets every live connection between two hosts.
func (n *simNet) severBetween(a, b string) int {
	n.mu.Lock()
	defer n.mu.Unlock()
	k := 0
	for _, c := range n.conns {
		if (c.from == a && c.to == b) || (c.from == b && c.to == a) {
			if !c.h[0].reset && !(c.ends[0].closed && c.ends[1].closed) {
				n.resetLocked(c)
				k++
			}
		}
	}
	return k
}

func (n *simNet) setCut(a, b string, cut bool) {
	n.mu.Lock()
	defer n.mu.Unlock()
	if cut {
		n.cut[[2]string{a, b}] = true
		n.cut[[2]string{b, a}] = true
	} else {
		delete(n.cut, [2]string{a, b})
		delete(n.cut, [2]string{b, a})
	}
}

func (n *simNet) healAll() {
	n.mu.Lock()
	defer n.mu.Unlock()
	n.cut = map[[2]string]bool{}
	n.blocked = map[[2]string]bool{}
}

// setBlocked (free mode): bytes from->to are held (not lost) while blocked.
func (n *simNet) setBlocked(from, to string, b bool) {
	n.mu.Lock()
	defer n.mu.Unlock()
	if b {
		n.blocked[[2]string{from, to}] = true
		return
	}
	delete(n.blocked, [2]string{from, to})
	if !n.gated {
		for _, c := range n.conns {
			for d, h := range c.h {
				f, t := c.from, c.to
				if d == 1 {
					f, t = t, f
				}
				if f == from && t == to {
					n.releaseLocked(h, len(h.pending))
				}
			}
		}
	}
}

func (n *simNet) setGated(g bool) {
	n.mu.Lock()
	defer n.mu.Unlock()
	if n.gated == g {
		return
	}
	n.gated = g
	if !g {
		// leaving gated mode: everything pending flows (unless blocked)
		for _, c := range n.conns {
			for d, h := range c.h {
				f, t := c.from, c.to
				if d == 1 {
					f, t = t, f
				}
				if !n.blocked[[2]string{f, t}] {
					n.releaseLocked(h, len(h.pending))
				}
			}
		}
	}
}

// freezeHost models a process kill of everything owned by host: its ends
// fail all I/O from now on and nothing it writes later leaves. Bytes already
// written stay in flight. If fin is true peers get an orderly FIN after those
// bytes (kernel closes sockets of a killed process); otherwise peers are not
// told (machine crash) until the harness severs the connection.
func (n *simNet) freezeHost(host string, fin bool) {
	n.mu.Lock()
	defer n.mu.Unlock()
	for _, l := range n.listeners {
		if l.host == host {
			l.frozen = true
			for _, e := range l.queue {
				n.resetLocked(e.c)
			}
			l.queue = nil
			delete(n.listeners, l.addr)
		}
	}
	for _, c := range n.conns {
		for _, e := range c.ends {
			if e.host == host && !e.dead {
				wasClosed := e.closed
				e.dead = true
				e.rd.cond.Broadcast()
				if fin && !wasClosed && !e.wr.reset {
					e.wr.pending = append(e.wr.pending, chunk{fin: true})
					n.scheduleLocked(e.wr)
				}
				// what peers wrote to us and we have not read is gone
				e.rd.pending = nil
				e.rd.buf = nil
			}
		}
	}
}

type pendingLink struct {
	seq, dir int
	cfrom, cto string // connection's dialer and listener
	from, to string   // direction of these bytes
	chunks   int
	bytes    int
}

// pendingLinks lists halves with undelivered chunks, in stable order.
func (n *simNet) pendingLinks() []pendingLink {
	n.mu.Lock()
	defer n.mu.Unlock()
	var out []pendingLink
	for _, c := range n.conns {
		for d, h := range c.h {
			if len(h.pending) == 0 {
				continue
			}
			from, to := c.from, c.to
			if d == 1 {
				from, to = to, from
			}
			b := 0
			for _, ch := range h.pending {
				b += len(ch.b)
			}
			out = append(out, pendingLink{c.seq, d, c.from, c.to, from, to, len(h.pending), b})
		}
	}
	sort.Slice(out, func(i, j int) bool {
		a, b := out[i], out[j]
		if a.cfrom != b.cfrom {
			return a.cfrom < b.cfrom
		}
		if a.cto != b.cto {
			return a.cto < b.cto
		}
		if a.seq != b.seq {
			return a.seq < b.seq
		}
		return a.dir < b.dir
	})
	return out
}

// liveConns lists connections not yet reset or closed on both ends.
func (n *simNet) liveConns() []*simConn {
	n.mu.Lock()
	defer n.mu.Unlock()
	var out []*simConn
	for _, c := range n.conns {
		if c.h[0].reset {
			continue
		}
		if (c.ends[0].closed || c.ends[0].dead) && (c.ends[1].closed || c.ends[1].dead) {
			continue
		}
		out = append(out, c)
	}
	sort.Slice(out, func(i, j int) bool {
		a, b := out[i], out[j]
		if a.from != b.from {
			return a.from < b.from
		}
		if a.to != b.to {
			return a.to < b.to
		}
		return a.seq < b.seq
	})
	return out
}

// gc drops bookkeeping of finished connections (keeps ids monotonic).
func (n *simNet) gc() {
	n.mu.Lock()
	defer n.mu.Unlock()
	keep := n.conns[:0]
	for _, c := range n.conns {
		done := c.h[0].reset || ((c.ends[0].closed || c.ends[0].dead) && (c.ends[1].closed || c.ends[1].dead))
		if done && len(c.h[0].pending) == 0 && len(c.h[1].pending) == 0 {
			continue
		}
		keep = append(keep, c)
	}
	n.conns = keep
}

// connAliveLocked: neither reset nor closed by either end (caller holds n.mu,
// as the wire callbacks do).
func (n *simNet) connAliveLocked(c *simConn) bool {
	if c == nil {
		return false
	}
	if c.h[0].eof || c.h[1].eof {
		return false // a FIN has been delivered: the reader is about to see the end
	}
	return !c.h[0].reset && !c.h[1].reset && !c.ends[0].closed && !c.ends[1].closed
}

// newestConnID returns the id of the most recently dialled live connection
// between two hosts (0 if none).
func (n *simNet) newestConnID(a, b string) int {
	n.mu.Lock()
	defer n.mu.Unlock()
	id := 0
	for _, c := range n.conns {
		if !((c.from == a && c.to == b) || (c.from == b && c.to == a)) || c.h[0].reset {
			continue
		}
		if int(c.id) > id {
			id = int(c.id)
		}
	}
	return id
}

// releaseNewest releases everything pending on the most recently dialled live
// connection between two hosts (in either direction), leaving older ones alone.
func (n *simNet) releaseNewest(a, b string) int {
	n.mu.Lock()
	defer n.mu.Unlock()
	var newest *simConn
	for _, c := range n.conns {
		if !((c.from == a && c.to == b) || (c.from == b && c.to == a)) {
			continue
		}
		if c.h[0].reset {
			continue
		}
		if newest == nil || c.id > newest.id {
			newest = c
		}
	}
	if newest == nil {
		return 0
	}
	total := 0
	for _, h := range newest.h {
		total += n.releaseLocked(h, len(h.pending))
	}
	return total
}
