//go:build verif && go1.25

package raft

// vAct language: a case is a list of concrete, JSON-serialisable actions.
// State-dependent choices are resolved while generating, so a recorded list
// replays without the property-testing library.

import (
	"fmt"
	"math/rand"
	"sort"
	"testing/synctest"
	"time"
)

type vAct struct {
	A string   `json:"a"`
	N uint64   `json:"n,omitempty"` // node
	M uint64   `json:"m,omitempty"` // second node / target
	C int      `json:"c,omitempty"` // connection id
	D int      `json:"d,omitempty"` // direction
	K int      `json:"k,omitempty"` // count
	T int64    `json:"t,omitempty"` // milliseconds
	S string   `json:"s,omitempty"` // name (timer, hook point, edit list)
	L []uint64 `json:"l,omitempty"` // node list
	U []uint64 `json:"u,omitempty"` // init: voters of the initial configuration that start empty
	B bool     `json:"b,omitempty"`
}

func (a vAct) String() string {
	s := a.A
	if a.N != 0 {
		s += fmt.Sprintf(" n%d", a.N)
	}
	if a.M != 0 {
		s += fmt.Sprintf(" m%d", a.M)
	}
	if a.C != 0 {
		s += fmt.Sprintf(" #%d/%d", a.C, a.D)
	}
	if a.K != 0 {
		s += fmt.Sprintf(" k%d", a.K)
	}
	if a.T != 0 {
		s += fmt.Sprintf(" %dms", a.T)
	}
	if a.S != "" {
		s += " " + a.S
	}
	if len(a.L) > 0 {
		s += fmt.Sprintf(" %v", a.L)
	}
	if a.B {
		s += " !"
	}
	return s
}

// step applies one action, lets the cluster react until quiescent, observes.
func (c *cluster) step(a vAct) {
	c.stepNo++
	c.stats.steps++
	recordAction(a)
	c.tracef("%s", a)
	switch a.A {
	case "dlv", "dlvto", "dlvfrom", "dlvpair", "dlvamong", "dlvnewest", "dlvexcept", "settle":
		c.deliveryStep = c.net.gated
	default:
		c.deliveryStep = false
	}
	c.net.mu.Lock()
	for k := range c.respInStep {
		delete(c.respInStep, k)
	}
	c.net.deliveredTo = map[string]int{}
	c.net.mu.Unlock()
	c.apply(a)
	synctest.Wait()
	c.pollInfo()
	synctest.Wait()
	if c.blackbox {
		c.observeBlackbox()
		return
	}
	c.observe()
}

// observeBlackbox: race tier. Only data handed over through channels, mutexes
// or tracer callbacks is looked at.
func (c *cluster) observeBlackbox() {
	l := c.led
	for _, e := range c.drainEvents() {
		if e.dead {
			continue
		}
		switch e.kind {
		case "state":
			if e.state == Leader {
				l.leadersElected++
				if prev, ok := l.leaderOf[e.term]; ok && prev != e.nid {
					c.fail("leader-unique", "two-leaders", "term %d has two leaders: node %d and node %d", e.term, prev, e.nid)
				}
				l.leaderOf[e.term] = e.nid
				c.stats.class("leader-elected")
			}
		case "election":
			l.elections++
		case "compacted":
			c.stats.class("compaction")
		case "configChanged":
			if e.state == Leader {
				c.stats.class("leader-config-change")
			}
		}
	}
	for _, id := range c.order {
		n := c.nodes[id]
		if n.status != nodeUp || n.infoTask == nil || !taskDone(n.infoTask) {
			continue
		}
		if info, ok := n.infoTask.Result().(Info); ok {
			cp := info
			n.sh.info = &cp
			if info.State == Leader {
				n.sh.state = Leader
			} else {
				n.sh.state = info.State
			}
		}
		n.infoTask = nil
	}
	for _, pt := range c.tasks {
		if pt.done == 0 && taskDone(pt.t) {
			pt.done = c.stepNo
			c.stats.class(pt.kind + "-done")
			if pt.kind == "snap" && pt.t.Err() == nil {
				c.stats.class("snap-ok")
			}
		}
	}
	c.checkExits()
}

func (c *cluster) up(id uint64) *simNode {
	n := c.nodes[id]
	if n == nil || n.status != nodeUp || n.r == nil {
		return nil
	}
	return n
}

// raftOf reads n.r once: a crash armed at a hook point runs on the node's own
// goroutine and may clear it while the harness is applying an action.
func raftOf(n *simNode) *Raft {
	if n == nil {
		return nil
	}
	return n.r
}

func (c *cluster) upIDs() []uint64 {
	var out []uint64
	for _, id := range c.order {
		if c.up(id) != nil {
			out = append(out, id)
		}
	}
	return out
}

func (c *cluster) downIDs() []uint64 {
	var out []uint64
	for _, id := range c.order {
		if n := c.nodes[id]; n.status == nodeDown && n.image != "" {
			out = append(out, id)
		}
	}
	return out
}

func (c *cluster) leaders() []uint64 {
	var out []uint64
	for _, id := range c.upIDs() {
		if c.blackbox {
			if n := c.nodes[id]; n.sh != nil && n.sh.info != nil && n.sh.info.State == Leader {
				out = append(out, id)
			}
			continue
		}
		if c.nodes[id].r.state == Leader {
			out = append(out, id)
		}
	}
	return out
}

func (c *cluster) apply(a vAct) {
	c.stats.class("a-" + a.A)
	switch a.A {
	case "crash", "stop", "sever", "severpair", "isolate", "cut":
		c.stats.class("fault")
	}
	switch a.A {
	case "init":
		// K voters with pre-seeded configuration, L = extra provisioned (empty) nodes,
		// T = seed of the nodes' randomised timers
		c.rng = rand.New(rand.NewSource(a.T))
		if a.D > 0 {
			// automatic snapshots: D = SnapshotInterval in ms, C = SnapshotThreshold
			c.opt.SnapshotInterval = time.Duration(a.D) * time.Millisecond
			c.opt.SnapshotThreshold = uint64(a.C)
			c.stats.class("auto-snapshots")
		}
		nodes := map[uint64]Node{}
		for i := 1; i <= a.K; i++ {
			id := uint64(i)
			nodes[id] = Node{ID: id, Addr: addrOf(id), Voter: true}
		}
		c.initNodes = nodes
		for id := range nodes {
			c.provision(id)
			unseeded := false
			for _, u := range a.U {
				unseeded = unseeded || u == id
			}
			if !unseeded {
				c.seedConfig(id, nodes)
			}
		}
		for _, id := range a.L {
			c.provision(id)
		}
		c.shutdownOnRemove = !a.B
		ids := make([]uint64, 0, len(nodes))
		for id := range nodes {
			ids = append(ids, id)
		}
		sort.Slice(ids, func(i, j int) bool { return ids[i] < ids[j] })
		for _, id := range ids {
			if err := c.start(id); err != nil {
				panic(err)
			}
		}
		for _, id := range a.L {
			if err := c.start(id); err != nil {
				panic(err)
			}
		}
	case "gate":
		c.net.setGated(true)
	case "free":
		c.net.setGated(false)
	case "adv":
		time.Sleep(time.Duration(a.T) * time.Millisecond)
	case "settle":
		// gated: fair delivery of everything until quiet (bounded)
		for i := 0; i < a.K; i++ {
			if c.net.releaseAll(nil) == 0 {
				break
			}
			synctest.Wait()
		}
	case "dlv":
		c.net.release(hostOf(a.N), hostOf(a.M), a.C, a.D, a.K)
	case "dlvto":
		h := hostOf(a.N)
		c.net.releaseAll(func(from, to string) bool { return to == h })
	case "dlvfrom":
		h := hostOf(a.N)
		c.net.releaseAll(func(from, to string) bool { return from == h })
	case "dlvpair":
		h1, h2 := hostOf(a.N), hostOf(a.M)
		for i := 0; i < a.K; i++ {
			if c.net.releaseAll(func(from, to string) bool {
				return (from == h1 && to == h2) || (from == h2 && to == h1)
			}) == 0 {
				break
			}
			synctest.Wait()
		}
	case "dlvnewest":
		// only the newest connection between the two nodes (either dial direction)
		h1, h2 := hostOf(a.N), hostOf(a.M)
		for i := 0; i < a.K; i++ {
			if c.net.releaseNewest(h1, h2) == 0 {
				break
			}
			synctest.Wait()
		}
	case "dlvexcept":
		// everything but one connection (dialled by N to M with sequence number C)
		h1, h2 := hostOf(a.N), hostOf(a.M)
		for i := 0; i < a.K; i++ {
			if c.net.releaseAllExcept(h1, h2, a.C) == 0 {
				break
			}
			synctest.Wait()
		}
	case "dlvamong":
		// deliver only among the listed nodes, until quiet (bounded)
		in := map[string]bool{}
		for _, id := range a.L {
			in[hostOf(id)] = true
		}
		for i := 0; i < a.K; i++ {
			if c.net.releaseAll(func(from, to string) bool { return in[from] && in[to] }) == 0 {
				break
			}
			synctest.Wait()
		}
	case "poke":
		if r := raftOf(c.up(a.N)); r != nil && !c.blackbox {
			n := struct{ r *Raft }{r}
			switch a.S {
			case "", "main":
				delete(c.lastHeard, a.N) // (see elect)
				pokeTimer(n.r.timer)
			case "xfer":
				// not generated: the transfer timer and the deadline of the timeout-now
				// RPC are derived from the same clock reading; firing only the timer
				// early would break a coupling the code may rely on
			case "newterm":
				if n.r.ldr != nil {
					pokeTimer(n.r.ldr.transfer.newTermTimer)
				}
			}
		}
	case "elect":
		// poke the election timer, then deliver only traffic from/to that node
		if r := raftOf(c.up(a.N)); r != nil && !c.blackbox {
			delete(c.lastHeard, a.N) // its timer "ran out": the clock-based stability oracle has no premise
			pokeTimer(r.timer)
			synctest.Wait()
			h := hostOf(a.N)
			for i := 0; i < a.K; i++ {
				if c.net.releaseAll(func(from, to string) bool { return from == h || to == h }) == 0 {
					break
				}
				synctest.Wait()
			}
		}
	case "sever":
		c.net.sever(hostOf(a.N), hostOf(a.M), a.C)
	case "severpair":
		c.net.severBetween(hostOf(a.N), hostOf(a.M))
	case "cut":
		c.net.setCut(hostOf(a.N), hostOf(a.M), true)
		if a.B {
			c.net.severBetween(hostOf(a.N), hostOf(a.M))
		}
	case "uncut":
		c.net.setCut(hostOf(a.N), hostOf(a.M), false)
	case "isolate":
		for _, id := range c.order {
			if id != a.N {
				c.net.setCut(hostOf(a.N), hostOf(id), true)
				if a.B {
					c.net.severBetween(hostOf(a.N), hostOf(id))
				} else {
					c.net.setBlocked(hostOf(a.N), hostOf(id), true)
					c.net.setBlocked(hostOf(id), hostOf(a.N), true)
				}
			}
		}
	case "heal":
		c.net.healAll()
		if !c.net.gated {
			c.net.setGated(true)
			c.net.setGated(false)
		}
	case "upd":
		if n := c.up(a.N); n != nil {
			for i := 0; i < a.K; i++ {
				id, cmd := c.newCmd(int(a.T))
				c.submitFSM(n, "upd", UpdateFSM(cmd), id)
			}
		}
	case "read":
		if n := c.up(a.N); n != nil {
			c.submitFSM(n, "read", ReadFSM("q"), 0)
		}
	case "dread":
		if n := c.up(a.N); n != nil {
			c.submitFSM(n, "dread", DirtyReadFSM("q"), 0)
		}
	case "barrier":
		if n := c.up(a.N); n != nil {
			c.submitFSM(n, "barrier", BarrierFSM(), 0)
		}
	case "snap":
		if n := c.up(a.N); n != nil {
			c.submitTask(n, "snap", TakeSnapshot(uint64(a.K)))
		}
	case "xfer":
		if n := c.up(a.N); n != nil {
			pt := c.submitTask(n, "xfer", TransferLeadership(a.M, time.Duration(a.T)*time.Millisecond))
			if r := raftOf(n); r != nil && !c.blackbox {
				pt.xferTerm = r.term
			}
		}
	case "cfg":
		c.applyCfg(a)
	case "bootstrap":
		// the initial configuration handed, as a ChangeConfig task, to a voter of
		// that configuration that was started empty and has not learnt it yet
		if n := c.up(a.N); n != nil && !c.blackbox {
			if r := raftOf(n); r != nil && !r.configs.IsBootstrapped() {
				if _, member := c.initNodes[a.N]; member {
					cfg := Config{Nodes: map[uint64]Node{}}
					for k, v := range c.initNodes {
						cfg.Nodes[k] = v
					}
					c.submitTask(n, "bootstrap", ChangeConfig(cfg))
					c.stats.class("late-bootstrap")
					if r.term > 0 {
						c.stats.class("late-bootstrap-after-contact")
					}
				}
			}
		}
	case "crash":
		if a.S == "" {
			c.crashNow(a.N, a.B)
		} else if c.up(a.N) != nil && !c.blackbox {
			k := a.K
			if k <= 0 {
				k = 1
			}
			c.armCrash(a.N, a.S, k, a.B)
		}
	case "stop":
		c.stop(a.N)
	case "restart":
		if n := c.nodes[a.N]; n != nil && n.status == nodeDown && n.image != "" {
			if err := c.start(a.N); err != nil {
				c.fail("restart", "restart-failed/"+keyOfErr(err), "node %d failed to restart from its directory image: %v", a.N, err)
			}
		}
	case "heldsnap":
		if n := c.up(a.N); n != nil {
			c.setHold(a.N, "snap.begin")
			c.submitTask(n, "snap", TakeSnapshot(uint64(a.K)))
		}
	case "hold":
		c.setHold(a.N, a.S)
	case "unhold":
		c.releaseHold(a.N, a.S)
	case "healthy":
		// C17: only the listed nodes keep exchanging messages from now on
		c.healthy = map[uint64]bool{}
		for _, id := range a.L {
			c.healthy[id] = true
		}
		for _, id := range c.order {
			if c.healthy[id] {
				continue
			}
			for _, other := range c.order {
				if other != id {
					c.net.setCut(hostOf(id), hostOf(other), true)
					c.net.severBetween(hostOf(id), hostOf(other))
				}
			}
		}
	case "waitstable":
		if n := c.up(a.N); n != nil {
			c.submitTask(n, "wait", WaitForStableConfig())
		}
	case "unholdall":
		c.releaseAllHolds()
	case "probe":
		if n := c.up(a.N); n != nil {
			id, cmd := c.newCmd(4)
			c.probe = c.submitFSM(n, "upd", UpdateFSM(cmd), id)
		}
	case "cfgprobe":
		// C17: a membership change (non-voter M joins) must commit too
		if n := c.up(a.N); n != nil {
			if r := raftOf(n); r != nil {
				cfg := r.configs.Latest.clone()
				if err := cfg.AddNonvoter(a.M, addrOf(a.M), false); err == nil {
					c.cfgProbe = c.submitTask(n, "cfg", ChangeConfig(cfg))
				}
			}
		}
	case "checkconv":
		c.checkConverged()
	case "nop":
	default:
		panic("unknown action " + a.A)
	}
}

// ---------------------------------------------------------------- configuration edits

// cfg action: N = node the request is sent to, S = edit kind, M = subject node,
// K = staleness (0: config from the target's current state).
func (c *cluster) applyCfg(a vAct) {
	n := c.up(a.N)
	if n == nil {
		return
	}
	var cfg Config
	if c.blackbox {
		if n.sh.info == nil {
			return
		}
		cfg = n.sh.info.Configs.Latest.clone()
	} else {
		r := raftOf(n)
		if r == nil {
			return
		}
		cfg = r.configs.Latest.clone()
		if a.K > 0 && n.sh.info != nil {
			cfg = n.sh.info.Configs.Latest.clone()
		}
	}
	var err error
	invalid := ""
	switch a.S {
	case "flipvoter", "addvoter", "dropnode", "allleave", "older":
		if len(cfg.Nodes) == 0 {
			// a ChangeConfig task on a node without configuration is a bootstrap:
			// anything but the cluster's initial configuration would fork the cluster
			// by operator error (see the bootstrap action)
			return
		}
	}
	switch a.S {
	case "flipvoter":
		// the voting right changed directly, without promote/demote action
		if nd, ok := cfg.Nodes[a.M]; ok {
			nd.Voter = !nd.Voter
			cfg.Nodes[a.M] = nd
			invalid = "voting right of a member changed directly"
		} else {
			return
		}
	case "addvoter":
		if _, ok := cfg.Nodes[a.M]; ok {
			return
		}
		cfg.Nodes[a.M] = Node{ID: a.M, Addr: addrOf(a.M), Voter: true}
		invalid = "new node added as voter"
	case "dropnode":
		if _, ok := cfg.Nodes[a.M]; !ok {
			return
		}
		delete(cfg.Nodes, a.M)
		invalid = "member dropped without an action"
	case "allleave":
		// every voter gets a leaving action: no voter would remain
		k := 0
		for id, nd := range cfg.Nodes {
			if nd.Voter {
				if id%2 == 0 {
					nd.Action = Demote
				} else {
					nd.Action = Remove
				}
				cfg.Nodes[id] = nd
				k++
			}
		}
		if k == 0 {
			return
		}
		invalid = "every voter demoted or removed"
	case "older":
		if cfg.Index == 0 {
			return
		}
		cfg.Index--
		_ = cfg.AddNonvoter(a.M+50, addrOf(a.M+50), false)
		invalid = "based on an older configuration"
	case "addnv":
		err = cfg.AddNonvoter(a.M, addrOf(a.M), false)
	case "addpromote":
		err = cfg.AddNonvoter(a.M, addrOf(a.M), true)
	case "promote":
		err = cfg.SetAction(a.M, Promote)
	case "demote":
		err = cfg.SetAction(a.M, Demote)
	case "remove":
		err = cfg.SetAction(a.M, Remove)
	case "forceremove":
		err = cfg.SetAction(a.M, ForceRemove)
	case "none":
		err = cfg.SetAction(a.M, None)
	case "multi":
		// L lists subjects: demote every listed voter, promote every listed non-voter
		for _, id := range a.L {
			if nd, ok := cfg.Nodes[id]; ok {
				if nd.Voter {
					_ = cfg.SetAction(id, Demote)
				} else {
					_ = cfg.SetAction(id, Promote)
				}
			} else {
				_ = cfg.AddNonvoter(id, addrOf(id), true)
			}
		}
	}
	if err != nil {
		c.stats.class("cfg-invalid-local")
		return
	}
	pt := c.submitTask(n, "cfg", ChangeConfig(cfg))
	pt.cfgNew = cfg
	pt.cfgInvalid = invalid
	if invalid != "" {
		c.stats.class("cfg-invalid-request")
	}
}

// ---------------------------------------------------------------- info polling

func (c *cluster) fsmHeld(id uint64) bool {
	c.holdMu.Lock()
	defer c.holdMu.Unlock()
	return c.holds[fmt.Sprintf("%d/fsm.apply", id)] != nil || c.holds[fmt.Sprintf("%d/fsm.snapshot", id)] != nil
}

// pollInfo hands a GetInfo task to every node whose raft goroutine is idle.
func (c *cluster) pollInfo() {
	for _, id := range c.order {
		n := c.up(id)
		if n == nil {
			continue
		}
		if n.infoTask != nil {
			continue // previous one still queued behind a busy handler
		}
		if c.fsmHeld(id) {
			// GetInfo asks the state machine goroutine for its applied index and waits
			// on the raft goroutine: while Update is parked it would freeze the node,
			// which is exactly the concurrency the hold is there to open up
			continue
		}
		t := GetInfo()
		r := raftOf(n)
		if r == nil {
			continue
		}
		select {
		case r.taskCh <- t:
			n.infoTask = t
		default:
		}
	}
}

// collectInfos processes status reports that completed during this step.
func (c *cluster) collectInfos() {
	for _, id := range c.order {
		n := c.up(id)
		if n == nil || n.infoTask == nil || !taskDone(n.infoTask) {
			continue
		}
		t := n.infoTask
		n.infoTask = nil
		if info, ok := t.Result().(Info); ok {
			c.onInfo(n, info)
		}
	}
}

// checkConverged: bounded-liveness oracle evaluated after the closing phase
// (network healed, every node restarted, 40 s of virtual time = 20..40 election
// timeouts, then a probe update and 10 more seconds).
func (c *cluster) checkConverged() {
	l := c.led
	if c.blackbox {
		return
	}
	if c.traceOn {
		defer func() {
			for _, id := range c.upIDs() {
				r := c.nodes[id].r
				c.tracef("checkconv: n%d state=%c term=%d last=%d commit=%d latest=%v", id, r.state, r.term, r.lastLogIndex, r.commitIndex, r.configs.Latest)
			}
			c.tracef("checkconv: stranded=%v nomaj=%v nomajlatest=%v converged=%v", c.stats.has("conv-stranded-self-excluded-voter"), c.stats.has("conv-no-majority-up"), c.stats.has("conv-no-majority-of-latest-config"), c.stats.has("converged"))
		}()
	}
	if l.lastCommittedCfg == nil {
		return
	}
	cfg := *l.lastCommittedCfg
	ok := func(id uint64) bool { return c.up(id) != nil && (c.healthy == nil || c.healthy[id]) }
	upVoters, voters := 0, 0
	for id, nd := range cfg.Nodes {
		if nd.Voter {
			voters++
			if ok(id) {
				upVoters++
			}
		}
	}
	if upVoters < voters/2+1 {
		c.stats.class("conv-no-majority-up")
		c.tracef("checkconv: no majority up (%d of %d) of %v", upVoters, voters, cfg)
		return
	}
	// a configuration takes effect when appended: the premise "a majority of the
	// voters of the current configuration is healthy" must hold for the latest
	// configuration of every healthy node as well
	for _, id := range c.upIDs() {
		if !ok(id) {
			continue
		}
		lv, lup := 0, 0
		for vid, nd := range c.nodes[id].r.configs.Latest.Nodes {
			if nd.Voter {
				lv++
				if ok(vid) {
					lup++
				}
			}
		}
		if lv > 0 && lup < lv/2+1 {
			c.stats.class("conv-no-majority-of-latest-config")
			c.tracef("checkconv: node %d latest config %v has %d of %d voters healthy", id, c.nodes[id].r.configs.Latest, lup, lv)
			return
		}
	}
	var ldr *simNode
	nl := 0
	// The claim is bounded liveness, the check looks at one instant. A node that was
	// removed but keeps running (no shutdown on removal) campaigns for ever and can
	// depose a leader through a non-voter that gets no heartbeats; between such
	// depositions there is a leader and work gets done. When no leader is in place
	// at this instant the check therefore looks again after 3, 6 and 9 more virtual
	// seconds before it concludes that there is none.
	for attempt := 0; attempt < 4; attempt++ {
		ldr, nl = nil, 0
		for _, id := range c.upIDs() {
			n := c.nodes[id]
			if !ok(id) {
				continue
			}
			if n.r.state == Leader {
				if _, member := n.r.configs.Latest.Nodes[id]; member {
					ldr = n
					nl++
				}
			}
		}
		if nl != 0 || attempt == 3 {
			break
		}
		c.stats.class("conv-no-leader-at-first-look")
		time.Sleep(3 * time.Second)
		synctest.Wait()
	}
	if nl == 0 {
		// Known design corner (KNOWN_FINDINGS, C17): a voter of the committed
		// configuration whose own latest, uncommitted configuration excludes it
		// never campaigns, yet it can hold the longest log and refuse its vote.
		for id, nd := range cfg.Nodes {
			n := c.up(id)
			if n == nil || !nd.Voter || !ok(id) {
				continue
			}
			if me, ok := n.r.configs.Latest.Nodes[id]; !ok || !me.Voter {
				c.stats.class("conv-stranded-self-excluded-voter")
				if c.strandedDeciding {
					c.fail("converge", "no-leader/voter-excluded-by-own-uncommitted-config", "no leader 50 virtual seconds after heal: node %d is a voter of the committed configuration %v but not of its own latest (uncommitted) configuration %v, so it never campaigns, and it refuses votes to the others", id, cfg, n.r.configs.Latest)
				}
				return
			}
		}
		// Raft's own voting rules may make an election impossible although a majority
		// of the committed configuration is healthy: some healthy node still acts on an
		// uncommitted configuration, and the node whose log is most up to date cannot
		// campaign or cannot be voted for. A viable candidate is a healthy node that is a
		// voter of its own latest configuration and whose log is at least as up to date
		// as the logs of a quorum of that configuration's healthy voters. Without one
		// the premise of the liveness claim is not met (nothing the library could do).
		upToDate := func(a, b *Raft) bool { // a's log at least as up to date as b's
			return a.lastLogTerm > b.lastLogTerm || (a.lastLogTerm == b.lastLogTerm && a.lastLogIndex >= b.lastLogIndex)
		}
		viable := false
		for _, id := range c.upIDs() {
			if !ok(id) {
				continue
			}
			cr := c.nodes[id].r
			if me, in := cr.configs.Latest.Nodes[id]; !in || !me.Voter {
				continue
			}
			lv, grant := 0, 0
			for vid, nd := range cr.configs.Latest.Nodes {
				if !nd.Voter {
					continue
				}
				lv++
				if v := c.up(vid); v != nil && ok(vid) && upToDate(cr, v.r) {
					grant++
				}
			}
			if grant >= lv/2+1 {
				viable = true
			}
		}
		if !viable {
			c.stats.class("conv-no-viable-candidate")
			c.tracef("checkconv: no healthy node can collect a quorum under the voting rules")
			return
		}
		c.fail("converge", "no-leader-after-heal", "no leader among %d running voters (of %d) of %v after the network was healed for 50 virtual seconds", upVoters, voters, cfg)
		return
	}
	if nl > 1 {
		c.fail("converge", "several-leaders-after-heal", "%d nodes are in Leader state 50 virtual seconds after the network was healed", nl)
		return
	}
	r := ldr.r
	if r.commitIndex < r.ldr.startIndex {
		c.fail("converge", "leader-cannot-commit", "leader %d (term %d) has not committed an entry of its own term (commit %d, term starts at %d) although a majority is reachable", ldr.id, r.term, r.commitIndex, r.ldr.startIndex)
		return
	}
	if p := c.probe; p != nil && p.nid == ldr.id && p.inc == ldr.inc {
		if !taskDone(p.t) {
			c.fail("converge", "probe-not-committed", "update submitted to leader %d after the network was healed did not complete within 10 virtual seconds", ldr.id)
			return
		}
		if p.t.Err() == nil {
			c.stats.class("probe-ok")
		}
	}
	if p := c.cfgProbe; p != nil && p.nid == ldr.id && p.inc == ldr.inc && !p.notSubmitted {
		if !taskDone(p.t) {
			c.fail("converge", "membership-change-not-committed", "membership change submitted to leader %d after the network was healed did not complete within 10 virtual seconds", ldr.id)
			return
		}
		if err := p.t.Err(); err == nil {
			c.stats.class("cfgprobe-ok")
		} else if _, temp := err.(TemporaryError); !temp {
			if _, nl := err.(NotLeaderError); !nl && err != ErrStaleConfig {
				c.fail("converge", "membership-change-refused", "membership change submitted to leader %d after the network was healed failed with %v", ldr.id, err)
				return
			}
		}
	}
	for id := range r.configs.Latest.Nodes {
		n := c.up(id)
		if n == nil || id == ldr.id || !ok(id) {
			continue
		}
		if n.r.lastLogIndex != r.lastLogIndex || n.r.fsm.index != r.fsm.index {
			why := "?"
			if rp := r.ldr.repls[id]; rp != nil {
				why = fmt.Sprintf("leader's replication status: matchIndex=%d noContact=%v err=%v", rp.status.matchIndex, !rp.status.noContact.IsZero(), rp.status.err)
			} else {
				why = "leader has no replication for it"
			}
			c.tracef("not caught up: %s", why)
			c.fail("converge", "node-not-caught-up", "node %d is at last index %d / applied %d, leader %d at %d / %d, 50 virtual seconds after the network was healed", id, n.r.lastLogIndex, n.r.fsm.index, ldr.id, r.lastLogIndex, r.fsm.index)
			return
		}
	}
	c.stats.class("converged")
	c.tracef("checkconv: converged, leader %d", ldr.id)
}
