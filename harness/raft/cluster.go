//go:build verif && go1.25

package raft

// Cluster harness: real Raft nodes on simNet inside a synctest bubble, with
// recording FSMs, asynchronous task submission, crash/restart from directory
// images, and an event queue fed by the package's tracer callbacks and the
// verif hook points.

import (
	"regexp"
	"context"
	"encoding/binary"
	"fmt"
	"hash/fnv"
	"io"
	"io/ioutil"
	"math/rand"
	"os"
	"path/filepath"
	"runtime"
	"sort"
	"strings"
	"sync"
	"sync/atomic"
	"testing/synctest"
	"time"
)

const clusterID = 1234

// ---------------------------------------------------------------- FSM

type fsmReadResult struct {
	Len  int
	Hash uint64
}

type fsmUpdateResult struct {
	Pos int // position of this command in the applied sequence (1-based)
	ID  uint64
}

// recFSM records every command it is fed. Commands carry a unique id in
// their first 8 bytes.
type recFSM struct {
	mu       sync.Mutex
	node     uint64
	inc      int
	dir      string // storage directory of this incarnation (for the fsm.persist hook)
	ids      []uint64 // current content: restored base ++ updates since
	restores int
	badCalls []string
	calls    int
}

func hashIDs(ids []uint64) uint64 {
	h := fnv.New64a()
	var b [8]byte
	for _, id := range ids {
		binary.LittleEndian.PutUint64(b[:], id)
		h.Write(b[:])
	}
	return h.Sum64()
}

func (f *recFSM) Update(cmd []byte) interface{} {
	// a slow state machine: the harness can park Update (hold point "fsm.apply")
	if c := curCluster.Load(); c != nil {
		c.holdMu.Lock()
		hold := c.holds[fmt.Sprintf("%d/fsm.apply", f.node)]
		c.holdMu.Unlock()
		if hold != nil {
			c.pushEvent(event{kind: "held", nid: f.node, inc: f.inc, s: "fsm.apply"})
			<-hold
		}
	}
	f.mu.Lock()
	defer f.mu.Unlock()
	f.calls++
	if len(cmd) < 8 {
		f.badCalls = append(f.badCalls, fmt.Sprintf("Update with %d byte command", len(cmd)))
		return nil
	}
	id := binary.LittleEndian.Uint64(cmd)
	f.ids = append(f.ids, id)
	return fsmUpdateResult{Pos: len(f.ids), ID: id}
}

func (f *recFSM) Read(cmd interface{}) interface{} {
	f.mu.Lock()
	defer f.mu.Unlock()
	f.calls++
	return fsmReadResult{Len: len(f.ids), Hash: hashIDs(f.ids)}
}

type recState struct {
	ids []uint64
	dir string
}

// Persist writes the state in two halves; between them lies the harness-internal
// hook point "fsm.persist" (hold / crash while a snapshot file is half written).
func (s recState) Persist(w io.Writer) error {
	b := make([]byte, 8*len(s.ids))
	for i, id := range s.ids {
		binary.LittleEndian.PutUint64(b[8*i:], id)
	}
	half := len(b) / 2
	if _, err := w.Write(b[:half]); err != nil {
		return err
	}
	if c := curCluster.Load(); c != nil && s.dir != "" && !c.blackbox {
		c.onHook("fsm.persist", s.dir)
	}
	_, err := w.Write(b[half:])
	return err
}
func (s recState) Release() {}

func (f *recFSM) Snapshot() (FSMState, error) {
	// capturing the state of a big state machine takes time (hold point "fsm.snapshot")
	if c := curCluster.Load(); c != nil {
		c.holdMu.Lock()
		hold := c.holds[fmt.Sprintf("%d/fsm.snapshot", f.node)]
		c.holdMu.Unlock()
		if hold != nil {
			c.pushEvent(event{kind: "held", nid: f.node, inc: f.inc, s: "fsm.snapshot"})
			<-hold
		}
	}
	f.mu.Lock()
	defer f.mu.Unlock()
	f.calls++
	return recState{ids: append([]uint64(nil), f.ids...), dir: f.dir}, nil
}

func (f *recFSM) Restore(r io.Reader) error {
	b, err := ioutil.ReadAll(r)
	if err != nil {
		return err
	}
	f.mu.Lock()
	defer f.mu.Unlock()
	f.calls++
	f.restores++
	ids := make([]uint64, len(b)/8)
	for i := range ids {
		ids[i] = binary.LittleEndian.Uint64(b[8*i:])
	}
	f.ids = ids
	return nil
}

func (f *recFSM) snapshotIDs() []uint64 {
	f.mu.Lock()
	defer f.mu.Unlock()
	return append([]uint64(nil), f.ids...)
}

// ---------------------------------------------------------------- nodes

type nodeStatus int

const (
	nodeAbsent nodeStatus = iota // never started / wiped
	nodeUp
	nodeDown   // stopped or crashed; image available
	nodeZombie // internal: crashed incarnation still winding down
)

type simNode struct {
	id     uint64
	host   string
	addr   string
	status nodeStatus
	inc    int
	dir    string // live storage dir of the current incarnation
	image  string // directory image to restart from (when down)
	r      *Raft
	fsm    *recFSM
	serveCh chan error
	serveErr error
	served  bool // Serve returned
	removed bool // Serve returned ErrNodeRemoved

	fsmQ   *taskQueue
	taskQ  *taskQueue

	sh *shadow // observer state for this incarnation
	infoTask Task
}

// incarnation is a node process lifetime that may outlive its simNode slot
// (zombies after a crash).
type incarnation struct {
	node    *simNode
	id      uint64
	inc     int
	r       *Raft
	fsm     *recFSM
	dir     string
	serveCh chan error
	dead    atomic.Bool // crashed: callbacks ignored by oracles
	blocked chan struct{} // non-nil: goroutine parked at a crash hook until closed
	fsmQ, taskQ *taskQueue
	logClosed bool
}

type taskQueue struct {
	mu   sync.Mutex
	cond *sync.Cond
	q    []func()
	done bool
}

func newTaskQueue() *taskQueue {
	t := &taskQueue{}
	t.cond = sync.NewCond(&t.mu)
	go t.run()
	return t
}

func (t *taskQueue) run() {
	for {
		t.mu.Lock()
		for len(t.q) == 0 && !t.done {
			t.cond.Wait()
		}
		if len(t.q) == 0 && t.done {
			t.mu.Unlock()
			return
		}
		f := t.q[0]
		t.q = t.q[1:]
		t.mu.Unlock()
		f()
	}
}

func (t *taskQueue) push(f func()) {
	t.mu.Lock()
	t.q = append(t.q, f)
	t.cond.Broadcast()
	t.mu.Unlock()
}

func (t *taskQueue) close() {
	t.mu.Lock()
	t.done = true
	t.cond.Broadcast()
	t.mu.Unlock()
}

// ---------------------------------------------------------------- events

type event struct {
	meta   *snapshotMeta
	ids    []uint64
	kind   string
	nid    uint64
	inc    int
	dead   bool
	term   uint64
	state  State
	leader uint64
	commit uint64
	a, b   uint64
	s      string
	terms  []uint64 // leader election: terms of log entries prev+1..last
	prev   uint64
	snap   uint64
	cfg    Configs
	raw    [][]byte // precompact: copies of the entries prev+1..commit
}

// ---------------------------------------------------------------- cluster

type pendingTask struct {
	kind     string // upd, read, dread, barrier, cfg, xfer, snap, info, wait
	nid      uint64
	inc      int
	id       uint64 // command id for updates
	submit   int    // step submitted
	submitSeq int
	done     int    // step observed complete (0 = pending)
	t        Task
	notSubmitted bool // node closed before the task could be handed over
	checked  bool
	xferTerm uint64
	cfgNew   Config
	cfgInvalid string // non-empty: why the leader has to refuse this request
	floorPos int // highest position of an update observed complete before this one was submitted
}

type cluster struct {
	lastTN    tnConn
	tearingDown bool // under holdMu
	strictStability bool // the clock-based stability oracle judges (set inside template leaderconnclosed)
	lastHeard map[uint64]heardRec
	initNodes map[uint64]Node // the initial configuration (init action)
	net     *simNet
	base    string
	opt     Options
	nodes   map[uint64]*simNode
	order   []uint64
	incs    []*incarnation
	byRaft  sync.Map // *Raft -> *incarnation
	byDir   sync.Map // dir -> *incarnation

	evMu   sync.Mutex
	events []event

	stepNo int
	rng    *rand.Rand // only for node-internal timer seeds; derived from case seed
	seed   int64

	nextCmd uint64
	tasks   []*pendingTask
	taskSeq int

	holds   map[string]chan struct{} // hook point -> release channel (per node key)
	holdMu  sync.Mutex
	crashAt map[string]*crashArm // "nid/point" -> arm
	hookHits map[string]int

	led *ledgers
	deciding   map[string]bool    // oracles that decide the property under check (nil: all)
	incidental map[string]*failure // first failure per non-deciding oracle/key
	failure *failure
	failMu  sync.Mutex

	stats   caseStats
	trace   []string
	traceOn bool
	shutdownOnRemove bool
	mons    map[int]*streamMon
	wireQ   []*wireMsg
	timeoutNows []timeoutNowRec
	probe       *pendingTask
	cfgProbe    *pendingTask
	eagerLeader map[uint64][]uint64 // term -> nodes that entered Leader state (filled inside the callback)
	snapSeen    map[string]bool
	respInStep       map[uint64]int // responses written per node in the current step (under simNet.mu)
	deliveryStep     bool // current step only releases bytes while the network is gated (no timer can fire)
	healthy          map[uint64]bool // C17: nodes inside the healed majority (nil = all)
	blackbox         bool // race tier: no direct reads of node internals
	strandedDeciding bool // C17 only: report the self-excluded-voter deadlock
}

type crashArm struct {
	k    int // crash on k-th hit from now
	fin  bool
}

type failure struct {
	Oracle string `json:"oracle"`
	Key    string `json:"key"`
	Msg    string `json:"msg"`
	Step   int    `json:"step"`
}

var curCluster atomic.Pointer[cluster]

var liveTrace = os.Getenv("VERIF_TRACE_LIVE") != ""

func hostOf(id uint64) string { return fmt.Sprintf("n%d", id) }
func addrOf(id uint64) string { return fmt.Sprintf("n%d:7000", id) }
func idOfHost(h string) uint64 {
	var id uint64
	fmt.Sscanf(h, "n%d", &id)
	return id
}

var caseCounter int64

func newCluster(seed int64) *cluster {
	k := atomic.AddInt64(&caseCounter, 1)
	base := fmt.Sprintf("%s/verif-%d-%d", shmRoot(), os.Getpid(), k)
	_ = os.RemoveAll(base)
	if err := os.MkdirAll(base, 0700); err != nil {
		panic(err)
	}
	c := &cluster{
		net:      newSimNet(),
		base:     base,
		nodes:    map[uint64]*simNode{},
		seed:     seed,
		rng:      rand.New(rand.NewSource(seed)),
		holds:    map[string]chan struct{}{},
		crashAt:  map[string]*crashArm{},
		hookHits: map[string]int{},
		mons:     map[int]*streamMon{},
		respInStep: map[uint64]int{},
		lastHeard:  map[uint64]heardRec{},
		snapSeen: map[string]bool{},
		eagerLeader: map[uint64][]uint64{},
		nextCmd:  1,
		shutdownOnRemove: true,
	}
	c.net.step = &c.stepNo
	c.net.onWrite = c.onWireWrite
	c.opt = Options{
		HeartbeatTimeout:  1000 * time.Millisecond,
		PromoteThreshold:  1000 * time.Millisecond,
		SnapshotInterval:  0,
		SnapshotThreshold: 0,
		ShutdownOnRemove:  true,
		Bandwidth:         256 * 1024,
		LogSegmentSize:    1024,
		SnapshotsRetain:   1,
	}
	c.led = newLedgers(c)
	if os.Getenv("VERIF_BLACKBOX") != "" {
		// race tier: the harness must not touch node internals from its own goroutine
		c.blackbox = true
		c.net.step = nil
	}
	curCluster.Store(c)
	return c
}

func shmRoot() string {
	if st, err := os.Stat("/dev/shm"); err == nil && st.IsDir() {
		return "/dev/shm"
	}
	return os.TempDir()
}

func (c *cluster) tracef(format string, a ...interface{}) {
	if c.traceOn && !c.blackbox {
		c.evMu.Lock()
		line := fmt.Sprintf("[%d] ", c.stepNo) + fmt.Sprintf(format, a...)
		if liveTrace {
			fmt.Fprintln(os.Stderr, line)
		} else {
			c.trace = append(c.trace, line)
		}
		c.evMu.Unlock()
	}
}

func (c *cluster) fail(oracle, key, format string, a ...interface{}) {
	c.failMu.Lock()
	defer c.failMu.Unlock()
	if c.deciding != nil && !c.deciding[oracle] {
		// an oracle that does not decide the property being checked: remember the
		// first occurrence per key and keep going, so that it cannot hide a
		// violation of the property itself further down the same case
		if c.incidental == nil {
			c.incidental = map[string]*failure{}
		}
		if _, ok := c.incidental[oracle+"/"+key]; !ok && len(c.incidental) < 8 {
			c.incidental[oracle+"/"+key] = &failure{Oracle: oracle, Key: key, Msg: fmt.Sprintf(format, a...)}
		}
		return
	}
	if c.failure == nil {
		step := 0
		if !c.blackbox {
			step = c.stepNo
		}
		c.failure = &failure{Oracle: oracle, Key: key, Msg: fmt.Sprintf(format, a...), Step: step}
	}
}

func (c *cluster) failed() bool {
	c.failMu.Lock()
	defer c.failMu.Unlock()
	return c.failure != nil
}

// ---------------------------------------------------------------- storage helpers

// dirFingerprint hashes names, sizes and contents of the files of a directory.
func dirFingerprint(dir string) uint64 {
	h := fnv.New64a()
	fs, _ := ioutil.ReadDir(dir)
	for _, f := range fs {
		if f.IsDir() {
			continue
		}
		b, err := ioutil.ReadFile(filepath.Join(dir, f.Name()))
		if err != nil {
			continue
		}
		fmt.Fprintf(h, "%s:%d:", f.Name(), len(b))
		h.Write(b)
	}
	return h.Sum64()
}

func copyDir(src, dst string) error {
	return filepath.Walk(src, func(p string, info os.FileInfo, err error) error {
		if err != nil {
			if os.IsNotExist(err) {
				return nil // files may vanish while a zombie winds down
			}
			return err
		}
		rel, _ := filepath.Rel(src, p)
		target := filepath.Join(dst, rel)
		if info.IsDir() {
			return os.MkdirAll(target, 0700)
		}
		name := info.Name()
		if rel == "lock" || (strings.HasPrefix(name, "lock") && strings.HasSuffix(name, ".tmp")) {
			return nil // stale lock removal is the documented operator step after a kill
		}
		b, err := ioutil.ReadFile(p)
		if err != nil {
			if os.IsNotExist(err) {
				return nil
			}
			return err
		}
		return ioutil.WriteFile(target, b, 0600)
	})
}

func (c *cluster) newDir(id uint64) string {
	d := fmt.Sprintf("%s/n%d-%d", c.base, id, atomic.AddInt64(&caseCounter, 1))
	if err := os.MkdirAll(d, 0700); err != nil {
		panic(err)
	}
	return d
}

func (c *cluster) node(id uint64) *simNode {
	n := c.nodes[id]
	if n == nil {
		n = &simNode{id: id, host: hostOf(id), addr: addrOf(id)}
		c.nodes[id] = n
		c.order = append(c.order, id)
		sort.Slice(c.order, func(i, j int) bool { return c.order[i] < c.order[j] })
	}
	return n
}

// provision creates an empty storage directory with identity for node id.
func (c *cluster) provision(id uint64) *simNode {
	n := c.node(id)
	n.image = c.newDir(id)
	if err := SetIdentity(n.image, clusterID, id); err != nil {
		panic(err)
	}
	n.status = nodeDown
	return n
}

// seedConfig writes the bootstrap configuration (index 1, term 1) into the
// node's directory, the way the repository's tests prepare a cluster.
func (c *cluster) seedConfig(id uint64, nodes map[uint64]Node) {
	n := c.nodes[id]
	store, err := openStorage(n.image, c.opt)
	if err != nil {
		panic(err)
	}
	cfg := Config{Nodes: map[uint64]Node{}, Index: 1, Term: 1}
	for k, v := range nodes {
		cfg.Nodes[k] = v
	}
	if err := store.bootstrap(cfg); err != nil {
		panic(err)
	}
	if err := store.log.Close(); err != nil {
		panic(err)
	}
}

// start launches a node from its image (a private copy of it).
func (c *cluster) start(id uint64) error {
	n := c.nodes[id]
	if n == nil || n.status != nodeDown {
		return fmt.Errorf("node %d not startable", id)
	}
	dir := c.newDir(id)
	if err := copyDir(n.image, dir); err != nil {
		panic(err)
	}
	fsm := &recFSM{node: id, inc: n.inc + 1, dir: dir}
	opt := c.opt
	opt.ShutdownOnRemove = c.shutdownOnRemove
	r, err := New(opt, fsm, dir)
	if err != nil {
		return err
	}
	r.rtime = randTime{rand.New(rand.NewSource(c.rng.Int63()))}
	r.dialFn = c.net.dialer(n.host)
	n.inc++
	n.dir, n.r, n.fsm = dir, r, fsm
	n.status = nodeUp
	n.served, n.removed, n.serveErr = false, false, nil
	n.serveCh = make(chan error, 1)
	n.fsmQ, n.taskQ = newTaskQueue(), newTaskQueue()
	n.sh = newShadow()
	n.infoTask = nil
	inc := &incarnation{node: n, id: id, inc: n.inc, r: r, fsm: fsm, dir: dir, serveCh: n.serveCh, fsmQ: n.fsmQ, taskQ: n.taskQ}
	c.incs = append(c.incs, inc)
	c.byRaft.Store(r, inc)
	c.byDir.Store(dir, inc)
	l := c.net.listen(n.host, n.addr)
	ch := n.serveCh
	go func() {
		ch <- r.Serve(l)
	}()
	c.led.onStart(n)
	return nil
}

func (c *cluster) incOf(n *simNode) *incarnation {
	v, _ := c.byRaft.Load(n.r)
	if v == nil {
		return nil
	}
	return v.(*incarnation)
}

// crashNow kills the node process: directory image taken now, network frozen.
func (c *cluster) crashNow(id uint64, fin bool) bool {
	n := c.nodes[id]
	if n == nil || n.status != nodeUp {
		return false
	}
	inc := c.incOf(n)
	c.killIncarnation(inc, fin)
	return true
}

// killIncarnation may run on the harness goroutine or inside a hook on one of
// the node's own goroutines.
func (c *cluster) killIncarnation(inc *incarnation, fin bool) {
	if inc.dead.Swap(true) {
		return
	}
	n := inc.node
	// A kill is atomic, a directory copy is not: a hook on the snapshot or a
	// replication goroutine fires while the raft goroutine may be appending and
	// rolling segments. The copy is repeated until two consecutive looks at the
	// log directory agree (bounded).
	img := c.newDir(n.id)
	for try := 0; ; try++ {
		before := dirFingerprint(filepath.Join(inc.dir, "log"))
		if err := copyDir(inc.dir, img); err != nil {
			panic(err)
		}
		if try >= 6 || dirFingerprint(filepath.Join(inc.dir, "log")) == before && dirFingerprint(filepath.Join(img, "log")) == before {
			break
		}
		_ = os.RemoveAll(img)
		_ = os.MkdirAll(img, 0700)
	}
	c.net.freezeHost(n.host, fin)
	n.image = img
	n.status = nodeDown
	n.r, n.fsm = nil, nil
	c.pushEvent(event{kind: "crashed", nid: n.id, inc: inc.inc})
	// wind the process down in the background; its effects are invisible
	go func() {
		_ = inc.r.Shutdown(context.Background())
	}()
}

// stop shuts a node down gracefully; the image is its directory at exit.
func (c *cluster) stop(id uint64) bool {
	n := c.nodes[id]
	if n == nil || n.status != nodeUp {
		return false
	}
	inc := c.incOf(n)
	r := n.r
	c.releaseHoldsOf(id) // a parked snapshot goroutine would keep Shutdown waiting: harness artefact
	done := make(chan struct{})
	go func() {
		_ = r.Shutdown(context.Background())
		close(done)
	}()
	select {
	case <-done:
	case <-time.After(10 * time.Minute):
		c.fail("shutdown", "shutdown-hang", "node %d: Shutdown did not return within 10 virtual minutes", id)
		dumpStacks("shutdown-hang")
		return true
	}
	c.reap(inc)
	return true
}

// reap collects a finished incarnation: Serve result, image, closes the log.
func (c *cluster) reap(inc *incarnation) {
	n := inc.node
	var err error
	select {
	case err = <-inc.serveCh:
		inc.serveCh <- err
	case <-time.After(10 * time.Minute):
		c.fail("shutdown", "serve-hang", "node %d: Serve did not return within 10 virtual minutes", inc.id)
		return
	}
	inc.fsmQ.close()
	inc.taskQ.close()
	if !inc.dead.Load() {
		n.serveErr = err
		n.served = true
		if err != ErrServerClosed && err != ErrNodeRemoved {
			c.fail("serve", "serve-error/"+keyOfErr(err), "node %d: Serve returned %v", inc.id, err)
		}
		if err == ErrNodeRemoved {
			n.removed = true
		}
		img := c.newDir(n.id)
		if e := copyDir(inc.dir, img); e != nil {
			panic(e)
		}
		n.image = img
		n.status = nodeDown
		c.net.freezeHost(n.host, true)
		n.r, n.fsm = nil, nil
		inc.dead.Store(true)
	}
	c.closeLog(inc)
}

// closeLog unmaps the incarnation's log exactly once (a second munmap could
// hit an address range that meanwhile belongs to another node's segment).
func (c *cluster) closeLog(inc *incarnation) {
	if inc.logClosed {
		return
	}
	inc.logClosed = true
	if inc.r.storage != nil && inc.r.storage.log != nil {
		_ = inc.r.storage.log.Close()
	}
}

func keyOfErr(err error) string {
	if err == nil {
		return "nil"
	}
	s := pathRe.ReplaceAllString(err.Error(), "<path>")
	s = numRe.ReplaceAllString(s, "N")
	if len(s) > 60 {
		s = s[:60]
	}
	return s
}

// (keys must not carry temporary directory names or indexes)
var pathRe = regexp.MustCompile(`/[^\s:]+`)
var numRe = regexp.MustCompile(`[0-9]+`)

// checkExits notices nodes whose Serve returned on its own (removed, or error).
func (c *cluster) checkExits() {
	for _, id := range c.order {
		n := c.nodes[id]
		if n.status != nodeUp {
			continue
		}
		select {
		case err := <-n.serveCh:
			n.serveCh <- err
			inc := c.incOf(n)
			c.tracef("node %d exited: %v", id, err)
			c.reap(inc)
		default:
		}
	}
}

// teardown stops everything and waits for every goroutine of the case.
func (c *cluster) teardown() {
	c.releaseAllHolds()
	c.net.healAll()
	c.net.setGated(false)
	c.holdMu.Lock()
	c.tearingDown = true
	for _, inc := range c.incs {
		if inc.blocked != nil {
			select {
			case <-inc.blocked:
			default:
				close(inc.blocked)
			}
		}
	}
	c.holdMu.Unlock()
	for _, id := range c.order {
		n := c.nodes[id]
		if n.status == nodeUp {
			r := n.r
			go func() { _ = r.Shutdown(context.Background()) }()
		}
	}
	for _, inc := range c.incs {
		select {
		case err := <-inc.serveCh:
			inc.serveCh <- err
			if !inc.dead.Load() && err != ErrServerClosed && err != ErrNodeRemoved {
				c.fail("serve", "serve-error/"+keyOfErr(err), "node %d: Serve returned %v", inc.id, err)
			}
		case <-time.After(30 * time.Minute):
			if !inc.dead.Load() {
				c.fail("shutdown", "serve-hang", "node %d: Serve did not return after Shutdown (30 virtual minutes)", inc.id)
			} else {
				c.fail("shutdown", "zombie-hang", "node %d (crashed incarnation): Serve did not return", inc.id)
			}
			continue
		}
		inc.fsmQ.close()
		inc.taskQ.close()
		c.closeLog(inc)
	}
	// RPC goroutines the library does not track (vote requests, timeout-now)
	// end at their I/O deadline; give them virtual time to do so
	time.Sleep(2 * time.Minute)
	synctest.Wait()
	c.finalTaskCheck()
	curCluster.Store(nil)
	_ = os.RemoveAll(c.base)
}

// ---------------------------------------------------------------- tracer / hooks

func (c *cluster) pushEvent(e event) {
	c.evMu.Lock()
	c.events = append(c.events, e)
	c.evMu.Unlock()
}

func (c *cluster) drainEvents() []event {
	c.evMu.Lock()
	ev := c.events
	c.events = nil
	c.evMu.Unlock()
	return ev
}

func (c *cluster) evFor(r *Raft, kind string) (event, bool) {
	v, ok := c.byRaft.Load(r)
	if !ok {
		return event{}, false
	}
	inc := v.(*incarnation)
	return event{kind: kind, nid: inc.id, inc: inc.inc, dead: inc.dead.Load(), term: r.term, state: r.state, leader: r.leader, commit: r.commitIndex}, true
}

func installTracer() {
	with := func(r *Raft, kind string, f func(c *cluster, e *event)) {
		c := curCluster.Load()
		if c == nil {
			return
		}
		e, ok := c.evFor(r, kind)
		if !ok {
			return
		}
		if f != nil {
			f(c, &e)
		}
		c.pushEvent(e)
	}
	tracer.stateChanged = func(r *Raft) {
		with(r, "state", func(c *cluster, e *event) {
			if r.state == Leader {
				c.evMu.Lock()
				c.eagerLeader[e.term] = append(c.eagerLeader[e.term], e.nid)
				c.evMu.Unlock()
				// runs on the raft goroutine: reading its log here is safe
				e.cfg = r.configs.clone()
				e.prev, e.snap = r.log.PrevIndex(), r.snaps.index
				e.a = r.lastLogIndex
				e.terms = logTerms(r)
			}
		})
	}
	tracer.leaderChanged = func(r *Raft) { with(r, "leader", nil) }
	tracer.electionStarted = func(r *Raft) {
		with(r, "election", func(c *cluster, e *event) {
			e.cfg = r.configs.clone()
			e.a, e.b = r.lastLogIndex, r.lastLogTerm
			e.s = termFileOf(filepath.Dir(r.snaps.dir))
		})
	}
	tracer.electionAborted = func(r *Raft, reason string) {
		with(r, "electionAborted", func(c *cluster, e *event) { e.s = reason })
	}
	tracer.commitReady = func(r *Raft) { with(r, "commitReady", nil) }
	tracer.configChanged = func(r *Raft) {
		with(r, "configChanged", func(c *cluster, e *event) {
			e.cfg = r.configs.clone()
			if r.state == Leader && r.ldr != nil {
				e.a = r.ldr.startIndex
				// has this leader committed an entry of its own term? Judged from the log
				// itself (terms never decrease along the log), not from the library's own
				// bookkeeping: 1 yes, 2 no, 0 cannot tell (compacted)
				ci := r.commitIndex
				if ci > r.log.PrevIndex() && ci <= r.log.LastIndex() {
					if b, err := r.log.Get(ci); err == nil && len(b) >= 16 {
						if binary.LittleEndian.Uint64(b[8:16]) == r.term {
							e.b = 1
						} else {
							e.b = 2
						}
					}
				} else if si, st := r.snaps.latest(); ci == si && ci > 0 {
					if st == r.term {
						e.b = 1
					} else {
						e.b = 2
					}
				} else if ci == 0 {
					e.b = 2
				}
			}
		})
	}
	tracer.configCommitted = func(r *Raft) {
		with(r, "configCommitted", func(c *cluster, e *event) { e.cfg = r.configs.clone() })
	}
	tracer.configReverted = func(r *Raft) {
		with(r, "configReverted", func(c *cluster, e *event) { e.cfg = r.configs.clone() })
	}
	tracer.roundCompleted = func(r *Raft, id uint64, rd round) {
		with(r, "round", func(c *cluster, e *event) { e.a, e.b = id, rd.LastIndex })
	}
	tracer.logCompacted = func(r *Raft) {
		with(r, "compacted", func(c *cluster, e *event) { e.a = r.log.PrevIndex(); e.snap = r.snaps.index })
	}
	tracer.configActionStarted = func(r *Raft, id uint64, action Action) {
		with(r, "configAction", func(c *cluster, e *event) {
			e.a, e.b = id, uint64(action)
			e.cfg = r.configs.clone()
		})
	}
	tracer.shuttingDown = func(r *Raft, reason error) {
		// runs on the goroutine that called Shutdown (or on the raft goroutine when
		// the node removes itself): no reads of the node's fields here
		c := curCluster.Load()
		if c == nil {
			return
		}
		v, ok := c.byRaft.Load(r)
		if !ok {
			return
		}
		inc := v.(*incarnation)
		e := event{kind: "shuttingDown", nid: inc.id, inc: inc.inc, dead: inc.dead.Load()}
		if reason != nil {
			e.s = reason.Error()
		}
		c.pushEvent(e)
	}
	tracer.unreachable = func(r *Raft, id uint64, since time.Time, err error) {
		with(r, "unreachable", func(c *cluster, e *event) {
			e.a = id
			if !since.IsZero() {
				e.b = 1
			}
		})
	}
	verifHook = func(point, dir string) {
		c := curCluster.Load()
		if c == nil {
			return
		}
		c.onHook(point, dir)
	}
}

func logTerms(r *Raft) []uint64 {
	prev, last := r.log.PrevIndex(), r.lastLogIndex
	out := make([]uint64, 0, last-prev)
	for i := prev + 1; i <= last; i++ {
		b, err := r.log.Get(i)
		if err != nil || len(b) < 16 {
			out = append(out, 0)
			continue
		}
		out = append(out, binary.LittleEndian.Uint64(b[8:16]))
	}
	return out
}

func termFileOf(dir string) string {
	m, _ := filepath.Glob(filepath.Join(dir, "*.term"))
	if len(m) == 1 {
		return filepath.Base(m[0])
	}
	return fmt.Sprintf("?%d", len(m))
}

func (c *cluster) incByDir(dir string) *incarnation {
	// dir may be <storage>/snapshots or <storage>
	for d := dir; d != "/" && d != "."; d = filepath.Dir(d) {
		if v, ok := c.byDir.Load(d); ok {
			return v.(*incarnation)
		}
		if len(d) <= len(c.base) {
			break
		}
	}
	return nil
}

func (c *cluster) onHook(point, dir string) {
	inc := c.incByDir(dir)
	if inc == nil {
		return
	}
	key := fmt.Sprintf("%d/%s", inc.id, point)
	c.holdMu.Lock()
	c.hookHits[point]++
	arm := c.crashAt[key]
	var doCrash bool
	if arm != nil && !inc.dead.Load() {
		arm.k--
		if arm.k <= 0 {
			doCrash = true
			delete(c.crashAt, key)
		}
	}
	hold := c.holds[key]
	c.holdMu.Unlock()
	if c.blackbox {
		// only holds (pure channel waits) are supported in the race tier
		if hold != nil && !inc.dead.Load() {
			<-hold
		}
		return
	}
	if (point == "term.persisted" || point == "vote.persisted") && !inc.dead.Load() {
		c.led.notePersisted(inc.id, inc.dir)
	}
	if point == "append.truncated" && !inc.dead.Load() {
		// own goroutine: the node just removed a conflicting suffix, what it had
		// acknowledged beyond the new last index is legitimately gone
		c.led.lowerFloor(inc.id, inc.r.lastLogIndex)
	}
	if point == "snap.postmeta" && !inc.dead.Load() {
		c.onSnapshotStored(inc)
	}
	if point == "commit.advance" && !inc.dead.Load() {
		c.led.onCommitAdvance(inc)
	}
	if (point == "snaptaken.precompact" || point == "ldr.precompact") && !inc.dead.Load() {
		// own goroutine, right before segments are removed: what is committed here
		// is recorded now, the next observation would no longer find it (automatic
		// snapshots compact entries appended and committed within one long step)
		r := inc.r
		ev := event{kind: "precompact", nid: inc.id, inc: inc.inc, term: r.term, prev: r.log.PrevIndex(), commit: r.commitIndex}
		for i := ev.prev + 1; i <= r.commitIndex && i <= r.log.LastIndex(); i++ {
			b, err := r.log.Get(i)
			if err != nil {
				break
			}
			ev.raw = append(ev.raw, append([]byte(nil), b...))
		}
		c.pushEvent(ev)
	}
	if doCrash {
		// (under the lock teardown takes before it releases parked goroutines: a crash
		// that fires while the case is being torn down must not park for ever)
		c.holdMu.Lock()
		if c.tearingDown {
			c.holdMu.Unlock()
			return
		}
		inc.blocked = make(chan struct{})
		c.holdMu.Unlock()
		c.killIncarnation(inc, arm.fin)
		c.pushEvent(event{kind: "crashedAt", nid: inc.id, inc: inc.inc, s: point})
		<-inc.blocked // parked: nothing after this point is visible to anyone
		return
	}
	if hold != nil && !inc.dead.Load() {
		c.pushEvent(event{kind: "held", nid: inc.id, inc: inc.inc, s: point})
		<-hold
	}
}

func (c *cluster) setHold(id uint64, point string) {
	c.holdMu.Lock()
	defer c.holdMu.Unlock()
	key := fmt.Sprintf("%d/%s", id, point)
	if c.holds[key] == nil {
		c.holds[key] = make(chan struct{})
	}
}

func (c *cluster) releaseHold(id uint64, point string) {
	c.holdMu.Lock()
	defer c.holdMu.Unlock()
	key := fmt.Sprintf("%d/%s", id, point)
	if ch := c.holds[key]; ch != nil {
		close(ch)
		delete(c.holds, key)
	}
}

func (c *cluster) releaseHoldsOf(id uint64) {
	c.holdMu.Lock()
	defer c.holdMu.Unlock()
	prefix := fmt.Sprintf("%d/", id)
	for k := range c.crashAt {
		if strings.HasPrefix(k, prefix) {
			delete(c.crashAt, k) // a crash armed earlier must not fire during a graceful stop
		}
	}
	for k, ch := range c.holds {
		if strings.HasPrefix(k, prefix) {
			close(ch)
			delete(c.holds, k)
		}
	}
}

func (c *cluster) releaseAllHolds() {
	c.holdMu.Lock()
	defer c.holdMu.Unlock()
	for k, ch := range c.holds {
		close(ch)
		delete(c.holds, k)
	}
	c.crashAt = map[string]*crashArm{}
}

func (c *cluster) armCrash(id uint64, point string, k int, fin bool) {
	c.holdMu.Lock()
	defer c.holdMu.Unlock()
	c.crashAt[fmt.Sprintf("%d/%s", id, point)] = &crashArm{k: k, fin: fin}
}

// ---------------------------------------------------------------- wire monitor glue

func (c *cluster) onWireWrite(h *half, b []byte) {
	// called with simNet.mu held, on the writer's goroutine
	m := c.mons[h.conn.id]
	if m == nil {
		m = &streamMon{conn: h.conn}
		m.emit = func(w *wireMsg) { c.onWireMsg(m, w) }
		c.mons[h.conn.id] = m
	}
	if rawTrace && c.traceOn {
		c.tracef("  raw %s dir=%d %d bytes %x", h.conn, h.dir, len(b), b[:minInt(len(b), 40)])
	}
	m.feed(h.dir, b)
}

var rawTrace = os.Getenv("VERIF_TRACE_RAW") != ""

func minInt(a, b int) int {
	if a < b {
		return a
	}
	return b
}

// ---------------------------------------------------------------- timers

// poke fires an active timer now (the real handler runs on the node).
func pokeTimer(t *safeTimer) bool {
	if t == nil || !t.active {
		return false
	}
	t.timer.Reset(0)
	return true
}

// ---------------------------------------------------------------- tasks

func (c *cluster) newCmd(pad int) (uint64, []byte) {
	id := c.nextCmd
	c.nextCmd++
	b := make([]byte, 8+pad)
	binary.LittleEndian.PutUint64(b, id)
	for i := 8; i < len(b); i++ {
		b[i] = byte(id + uint64(i))
	}
	return id, b
}

func (c *cluster) submitFSM(n *simNode, kind string, t FSMTask, id uint64) *pendingTask {
	c.taskSeq++
	pt := &pendingTask{kind: kind, nid: n.id, inc: n.inc, id: id, submit: c.stepNo, submitSeq: c.taskSeq, t: t, floorPos: c.tl().maxPosDone}
	c.tasks = append(c.tasks, pt)
	r, q := n.r, n.fsmQ // a crash hook on a node goroutine may clear n.r at any moment
	if r == nil || q == nil {
		pt.notSubmitted = true
		return pt
	}
	q.push(func() {
		select {
		case <-r.Closed():
			pt.notSubmitted = true
		case r.FSMTasks() <- t:
		}
	})
	return pt
}

func (c *cluster) submitTask(n *simNode, kind string, t Task) *pendingTask {
	c.taskSeq++
	pt := &pendingTask{kind: kind, nid: n.id, inc: n.inc, submit: c.stepNo, submitSeq: c.taskSeq, t: t}
	c.tasks = append(c.tasks, pt)
	r, q := n.r, n.taskQ
	if r == nil || q == nil {
		pt.notSubmitted = true
		return pt
	}
	q.push(func() {
		select {
		case <-r.Closed():
			pt.notSubmitted = true
		case r.Tasks() <- t:
		}
	})
	return pt
}

func taskDone(t Task) bool {
	select {
	case <-t.Done():
		return true
	default:
		return false
	}
}

// onSnapshotStored runs right after a snapshot's meta file was renamed into
// place (taken locally or installed), on the goroutine that did it. Another
// sink of the same node may publish or retire snapshots at the same moment
// (local snapshot vs installation), so every label found on disk is looked at
// and files that vanish meanwhile (retention) are skipped, not judged.
func (c *cluster) onSnapshotStored(inc *incarnation) {
	snapDir := filepath.Join(inc.dir, "snapshots")
	metas, _ := filepath.Glob(filepath.Join(snapDir, "*.meta"))
	for _, mp := range metas {
		var idx uint64
		if _, err := fmt.Sscanf(filepath.Base(mp), "%d.meta", &idx); err != nil || idx == 0 {
			continue
		}
		c.evMu.Lock()
		key := fmt.Sprintf("%d/%d/%d", inc.id, inc.inc, idx)
		seen := c.snapSeen[key]
		c.snapSeen[key] = true
		c.evMu.Unlock()
		if seen {
			continue
		}
		meta, err := readMeta(snapDir, idx)
		if err != nil {
			if _, serr := os.Stat(mp); serr != nil {
				continue // retired meanwhile
			}
			c.fail("snapshot-label", "meta-unreadable", "node %d: snapshot meta %d does not decode: %v", inc.id, idx, err)
			continue
		}
		if meta.index != idx {
			c.fail("snapshot-label", "label-index", "node %d: file %d.meta carries the label of snapshot %d", inc.id, idx, meta.index)
			continue
		}
		b, err := ioutil.ReadFile(filepath.Join(snapDir, fmt.Sprintf("%d.snap", idx)))
		if err != nil {
			continue // retired meanwhile
		}
		if int64(len(b)) != meta.size {
			if _, serr := os.Stat(mp); serr != nil {
				continue
			}
			c.fail("snapshot-label", "snapshot-size", "node %d: snapshot %d has %d bytes, label says %d", inc.id, idx, len(b), meta.size)
			continue
		}
		ids := make([]uint64, len(b)/8)
		for i := range ids {
			ids[i] = binary.LittleEndian.Uint64(b[8*i:])
		}
		m := meta
		// (commit index of the node at this instant: with automatic snapshots an entry
		// may be committed and snapshotted between two observations)
		c.pushEvent(event{kind: "snapshot", nid: inc.id, inc: inc.inc, meta: &m, ids: ids, commit: inc.r.commitIndex})
	}
}

func dumpStacks(tag string) {
	dir := os.Getenv("VERIF_FAILDIR")
	if dir == "" {
		dir = os.TempDir()
	}
	buf := make([]byte, 4<<20)
	buf = buf[:runtime.Stack(buf, true)]
	_ = os.MkdirAll(dir, 0755)
	_ = ioutil.WriteFile(filepath.Join(dir, fmt.Sprintf("stacks-%s-%d.txt", tag, os.Getpid())), buf, 0644)
}
