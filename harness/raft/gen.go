//go:build verif && go1.25

package raft

// State-dependent action generators. All randomness comes from rapid.

import (
	"fmt"
	"sort"

	"pgregory.net/rapid"
)

type profile struct {
	name     string
	minNodes int
	maxNodes int
	extras   int // max extra provisioned (non-member) nodes
	warmUpd  int // max updates during warm-up
	steps    [2]int
	w        map[string]int // action weights
	closing  bool           // heal + converge phase at the end
	padMax   int
	gatedBias int // percent of cases that switch to gated mode after warm-up
	tpl      map[string]int // template name -> percent of cases that run it after warm-up
	lateBoot int            // percent of cases in which some initial voters start empty
	autoSnap int            // percent of cases with SnapshotInterval > 0
	preArm   int            // percent of cases with a crash armed at a hook point before the templates
}

var baseWeights = map[string]int{
	"adv": 10, "settle": 6, "dlv": 8, "dlvto": 4, "dlvfrom": 3, "dlvamong": 4,
	"poke": 6, "elect": 5, "sever": 3, "severpair": 2, "cut": 2, "uncut": 1, "isolate": 2, "heal": 3,
	"upd": 10, "read": 1, "dread": 1, "barrier": 1,
	"snap": 2, "xfer": 1, "cfg": 2, "waitstable": 1,
	"crash": 2, "stop": 1, "restart": 4, "gate": 1, "free": 1,
	"hold": 0, "unhold": 6, "heldsnap": 0,
}

func weights(over map[string]int) map[string]int {
	m := map[string]int{}
	for k, v := range baseWeights {
		m[k] = v
	}
	for k, v := range over {
		m[k] = v
	}
	return m
}

var profiles = map[string]*profile{
	"elect": {name: "elect", lateBoot: 15, minNodes: 2, maxNodes: 5, extras: 0, warmUpd: 3, steps: [2]int{10, 50}, gatedBias: 85, padMax: 8,
		tpl: map[string]int{"figure8": 30, "leaderconnclosed": 15}, w: weights(map[string]int{"poke": 16, "elect": 14, "dlv": 14, "dlvto": 8, "dlvfrom": 6, "upd": 3, "snap": 0, "cfg": 1, "xfer": 2, "crash": 4, "restart": 6, "sever": 6, "isolate": 4, "adv": 6})},
	"repl": {name: "repl", preArm: 15, minNodes: 2, maxNodes: 5, extras: 1, warmUpd: 12, steps: [2]int{10, 50}, gatedBias: 75, padMax: 120,
		tpl: map[string]int{"crashpoint": 10, "lagsnap": 10, "divergesnap": 15, "figure8": 30}, w: weights(map[string]int{"upd": 16, "dlvamong": 10, "elect": 8, "poke": 6, "crash": 4, "restart": 6, "snap": 2, "cfg": 2})},
	"member": {name: "member", preArm: 10, lateBoot: 10, minNodes: 1, maxNodes: 5, extras: 3, warmUpd: 6, steps: [2]int{10, 50}, gatedBias: 50, padMax: 40,
		tpl: map[string]int{"staletimeoutnow": 12, "cfgrevert": 40}, w: weights(map[string]int{"cfg": 16, "upd": 8, "elect": 6, "poke": 6, "xfer": 2, "crash": 3, "restart": 5, "adv": 12})},
	"snap": {name: "snap", preArm: 20, autoSnap: 25, minNodes: 1, maxNodes: 4, extras: 1, warmUpd: 40, steps: [2]int{10, 40}, gatedBias: 40, padMax: 200,
		tpl: map[string]int{"lagsnap": 30, "staleinstall": 10, "divergesnap": 20, "snaprace": 25}, w: weights(map[string]int{"heldsnap": 5, "hold": 3, "snap": 12, "upd": 16, "restart": 6, "crash": 3, "stop": 3, "isolate": 4, "heal": 5, "cfg": 3, "adv": 12})},
	"crash": {name: "crash", preArm: 25, autoSnap: 15, minNodes: 1, maxNodes: 4, extras: 1, warmUpd: 20, steps: [2]int{10, 40}, gatedBias: 40, padMax: 120,
		tpl: map[string]int{"crashpoint": 60, "lagsnap": 10}, w: weights(map[string]int{"crash": 14, "restart": 12, "upd": 14, "snap": 6, "cfg": 3, "adv": 12, "elect": 5})},
	"client": {name: "client", minNodes: 1, maxNodes: 5, extras: 1, warmUpd: 10, steps: [2]int{10, 50}, gatedBias: 25, padMax: 60,
		tpl: map[string]int{"lagsnap": 10, "divergesnap": 10, "snaprace": 15}, w: weights(map[string]int{"upd": 20, "read": 8, "dread": 6, "barrier": 5, "xfer": 3, "cfg": 3, "elect": 5, "poke": 5, "isolate": 4, "heal": 4, "crash": 3, "restart": 5, "adv": 14})},
	"transfer": {name: "transfer", minNodes: 2, maxNodes: 5, extras: 1, warmUpd: 6, steps: [2]int{8, 40}, gatedBias: 60, padMax: 40,
		tpl: map[string]int{"staletimeoutnow": 15, "cfgrevert": 25, "leaderconnclosed": 20}, w: weights(map[string]int{"xfer": 16, "upd": 10, "cfg": 4, "poke": 8, "elect": 5, "dlv": 12, "sever": 5, "adv": 10})},
	"chaos": {name: "chaos", preArm: 15, autoSnap: 25, lateBoot: 10, minNodes: 1, maxNodes: 5, extras: 2, warmUpd: 30, steps: [2]int{15, 60}, gatedBias: 10, padMax: 200, closing: true,
		tpl: map[string]int{"lagsnap": 25, "crashpoint": 10, "staleinstall": 5, "divergesnap": 10, "staletimeoutnow": 4}, w: weights(map[string]int{"heldsnap": 2, "hold": 2, "upd": 16, "snap": 6, "cfg": 6, "xfer": 4, "crash": 4, "stop": 3, "restart": 8, "isolate": 4, "heal": 5, "adv": 16, "read": 3, "dread": 2, "barrier": 2})},
	"snapmember": {name: "snapmember", preArm: 15, autoSnap: 20, minNodes: 2, maxNodes: 4, extras: 2, warmUpd: 12, steps: [2]int{10, 40}, gatedBias: 20, padMax: 60,
		tpl: map[string]int{"lagsnap": 30, "snaprace": 20}, w: weights(map[string]int{"heldsnap": 12, "unhold": 10, "snap": 6, "cfg": 14, "upd": 12, "adv": 14, "restart": 6, "stop": 3, "crash": 2, "isolate": 2, "heal": 4})},
	"info": {name: "info", preArm: 10, autoSnap: 15, minNodes: 2, maxNodes: 5, extras: 1, warmUpd: 20, steps: [2]int{10, 50}, gatedBias: 50, padMax: 120,
		tpl: map[string]int{"lagsnap": 25, "staleinstall": 25, "cfgrevert": 40}, w: weights(map[string]int{"snap": 8, "upd": 14, "isolate": 4, "heal": 4, "elect": 6, "crash": 3, "restart": 6, "cfg": 3})},
}

type weighted struct {
	kind string
	w    int
}

func drawKind(rt *rapid.T, ws []weighted) string {
	total := 0
	for _, w := range ws {
		total += w.w
	}
	x := rapid.IntRange(0, total-1).Draw(rt, "kind")
	for _, w := range ws {
		if x < w.w {
			return w.kind
		}
		x -= w.w
	}
	return ws[len(ws)-1].kind
}

func pickU64(rt *rapid.T, label string, xs []uint64) uint64 {
	return xs[rapid.IntRange(0, len(xs)-1).Draw(rt, label)]
}

var advChoices = []int64{10, 50, 100, 300, 600, 1100, 2500, 5000}

var holdPoints = []string{"snap.begin", "snap.begin", "snap.fsmdone", "repl.preread", "repl.prewrite", "snapopen.meta", "fsm.apply", "fsm.snapshot"}

var crashPoints = []string{
	"term.persisted", "vote.persisted", "append.appended", "append.truncated", "append.flushed",
	"commit.advance", "snap.fsmdone", "snap.premeta", "snap.postmeta", "snap.retained",
	"install.stored", "install.cleared", "snaptaken.precompact", "ldr.precompact", "fsm.persist",
}

// genAction draws the next action for the current cluster state.
func (c *cluster) genAction(rt *rapid.T, p *profile) vAct {
	up, down := c.upIDs(), c.downIDs()
	ldrs := c.leaders()
	pend := c.net.pendingLinks()
	live := c.net.liveConns()
	gated := c.net.gated

	var ws []weighted
	add := func(k string, ok bool) {
		if ok && p.w[k] > 0 {
			ws = append(ws, weighted{k, p.w[k]})
		}
	}
	add("adv", true)
	add("settle", gated && len(pend) > 0)
	add("dlv", gated && len(pend) > 0)
	add("dlvto", gated && len(pend) > 0)
	add("dlvfrom", gated && len(pend) > 0)
	add("dlvamong", gated && len(pend) > 0 && len(up) >= 2)
	add("poke", len(up) > 0 && !c.blackbox)
	add("elect", gated && len(up) > 0 && !c.blackbox)
	add("sever", len(live) > 0)
	add("severpair", len(up) >= 2)
	add("cut", len(c.order) >= 2)
	add("uncut", len(c.net.cut) > 0)
	add("isolate", len(up) >= 2)
	add("heal", len(c.net.cut) > 0 || len(c.net.blocked) > 0)
	add("upd", len(up) > 0)
	add("read", len(up) > 0)
	add("dread", len(up) > 0)
	add("barrier", len(up) > 0)
	add("waitstable", len(up) > 0)
	add("snap", len(up) > 0)
	add("xfer", len(up) > 0)
	add("cfg", len(up) > 0)
	add("crash", len(up) > 0)
	add("stop", len(up) > 0)
	add("restart", len(down) > 0)
	add("gate", !gated && !c.blackbox)
	add("free", gated)
	add("hold", len(up) > 0 && len(c.holds) < 2)
	add("unhold", len(c.holds) > 0)
	add("heldsnap", len(up) > 0 && len(c.holds) < 2)
	sort.SliceStable(ws, func(i, j int) bool { return ws[i].kind < ws[j].kind })

	kind := drawKind(rt, ws)
	preferLeader := func(label string) uint64 {
		if len(ldrs) > 0 && rapid.IntRange(0, 9).Draw(rt, label+"-ldr") < 8 {
			return pickU64(rt, label, ldrs)
		}
		return pickU64(rt, label, up)
	}
	switch kind {
	case "adv":
		return vAct{A: "adv", T: advChoices[rapid.IntRange(0, len(advChoices)-1).Draw(rt, "t")]}
	case "settle":
		return vAct{A: "settle", K: 30}
	case "dlv":
		pl := pend[rapid.IntRange(0, len(pend)-1).Draw(rt, "link")]
		k := pl.chunks
		if rapid.Bool().Draw(rt, "partial") {
			k = rapid.IntRange(1, pl.chunks).Draw(rt, "k")
		}
		return vAct{A: "dlv", N: idOfHost(pl.cfrom), M: idOfHost(pl.cto), C: pl.seq, D: pl.dir, K: k}
	case "dlvto":
		return vAct{A: "dlvto", N: pickU64(rt, "n", c.order)}
	case "dlvfrom":
		return vAct{A: "dlvfrom", N: pickU64(rt, "n", c.order)}
	case "dlvamong":
		var sub []uint64
		for _, id := range up {
			if rapid.Bool().Draw(rt, "in") {
				sub = append(sub, id)
			}
		}
		if len(sub) < 2 {
			sub = up
		}
		return vAct{A: "dlvamong", L: sub, K: 20}
	case "poke":
		return vAct{A: "poke", N: pickU64(rt, "n", up), S: []string{"main", "main", "main", "newterm"}[rapid.IntRange(0, 3).Draw(rt, "timer")]}
	case "elect":
		return vAct{A: "elect", N: pickU64(rt, "n", up), K: rapid.IntRange(1, 6).Draw(rt, "rounds")}
	case "sever":
		lc := live[rapid.IntRange(0, len(live)-1).Draw(rt, "conn")]
		return vAct{A: "sever", N: idOfHost(lc.from), M: idOfHost(lc.to), C: lc.seq}
	case "severpair":
		a := pickU64(rt, "n", up)
		b := pickU64(rt, "m", up)
		return vAct{A: "severpair", N: a, M: b}
	case "cut":
		a := pickU64(rt, "n", c.order)
		b := pickU64(rt, "m", c.order)
		return vAct{A: "cut", N: a, M: b, B: rapid.Bool().Draw(rt, "sever")}
	case "uncut":
		a := pickU64(rt, "n", c.order)
		b := pickU64(rt, "m", c.order)
		return vAct{A: "uncut", N: a, M: b}
	case "isolate":
		return vAct{A: "isolate", N: preferLeader("n"), B: rapid.Bool().Draw(rt, "sever")}
	case "heal":
		return vAct{A: "heal"}
	case "upd":
		return vAct{A: "upd", N: preferLeader("n"), K: rapid.IntRange(1, 12).Draw(rt, "k"), T: int64(rapid.IntRange(0, p.padMax).Draw(rt, "pad"))}
	case "waitstable":
		return vAct{A: "waitstable", N: preferLeader("n")}
	case "read", "dread", "barrier":
		if kind == "dread" {
			return vAct{A: kind, N: pickU64(rt, "n", up)}
		}
		return vAct{A: kind, N: preferLeader("n")}
	case "snap":
		n := pickU64(rt, "n", up)
		return vAct{A: "snap", N: n, K: rapid.IntRange(0, 3).Draw(rt, "threshold")}
	case "xfer":
		n := preferLeader("n")
		var m uint64
		if rapid.IntRange(0, 3).Draw(rt, "anytarget") > 0 {
			m = pickU64(rt, "m", c.order)
		}
		return vAct{A: "xfer", N: n, M: m, T: []int64{0, 100, 1000, 3000}[rapid.IntRange(0, 3).Draw(rt, "timeout")]}
	case "cfg":
		return c.genCfg(rt, preferLeader("n"))
	case "crash":
		n := pickU64(rt, "n", up)
		a := vAct{A: "crash", N: n, B: rapid.Bool().Draw(rt, "fin")}
		if rapid.IntRange(0, 2).Draw(rt, "athook") > 0 {
			a.S = crashPoints[rapid.IntRange(0, len(crashPoints)-1).Draw(rt, "point")]
			a.K = rapid.IntRange(1, 3).Draw(rt, "k")
		}
		return a
	case "stop":
		return vAct{A: "stop", N: pickU64(rt, "n", up)}
	case "restart":
		return vAct{A: "restart", N: pickU64(rt, "n", down)}
	case "hold":
		return vAct{A: "hold", N: pickU64(rt, "n", up), S: holdPoints[rapid.IntRange(0, len(holdPoints)-1).Draw(rt, "point")]}
	case "unhold":
		keys := make([]string, 0, len(c.holds))
		for k := range c.holds {
			keys = append(keys, k)
		}
		sort.Strings(keys)
		k := keys[rapid.IntRange(0, len(keys)-1).Draw(rt, "held")]
		var id uint64
		var pt string
		fmt.Sscanf(k, "%d/%s", &id, &pt)
		return vAct{A: "unhold", N: id, S: pt}
	case "heldsnap":
		// snapshot whose goroutine is parked at its first instruction
		return vAct{A: "heldsnap", N: preferLeader("n"), K: rapid.IntRange(0, 2).Draw(rt, "threshold")}
	case "gate":
		return vAct{A: "gate"}
	case "free":
		return vAct{A: "free"}
	}
	return vAct{A: "nop"}
}

// the last five are requests the leader has to refuse (voting right changed
// directly, new node as voter, node dropped without action, every voter given a
// leaving action, configuration older than the current one)
var cfgEdits = []string{"addnv", "addpromote", "promote", "demote", "remove", "forceremove", "multi", "none",
	"addnv", "promote", "demote", "remove", "multi", // (valid ones weighted up)
	"flipvoter", "addvoter", "dropnode", "allleave", "older"}

func (c *cluster) genCfg(rt *rapid.T, target uint64) vAct {
	n := c.up(target)
	a := vAct{A: "cfg", N: target}
	a.S = cfgEdits[rapid.IntRange(0, len(cfgEdits)-1).Draw(rt, "edit")]
	a.K = rapid.IntRange(0, 3).Draw(rt, "stale")
	if a.K > 1 {
		a.K = 0
	}
	var cfg Config
	if c.blackbox {
		if n.sh.info != nil {
			cfg = n.sh.info.Configs.Latest
		}
	} else {
		cfg = n.r.configs.Latest
	}
	var members, others []uint64
	for _, id := range c.order {
		if _, ok := cfg.Nodes[id]; ok {
			members = append(members, id)
		} else {
			others = append(others, id)
		}
	}
	switch a.S {
	case "addvoter":
		if len(others) == 0 {
			a.S = "flipvoter"
			a.M = pickU64(rt, "m", c.order)
		} else {
			a.M = pickU64(rt, "m", others)
		}
	case "allleave", "older":
	case "addnv", "addpromote":
		if len(others) > 0 && rapid.IntRange(0, 9).Draw(rt, "valid") < 9 {
			a.M = pickU64(rt, "m", others)
		} else {
			a.M = pickU64(rt, "m", c.order)
		}
	case "multi":
		k := rapid.IntRange(1, 3).Draw(rt, "nsubj")
		for i := 0; i < k; i++ {
			a.L = append(a.L, pickU64(rt, "subj", c.order))
		}
	default:
		if len(members) > 0 && rapid.IntRange(0, 9).Draw(rt, "valid") < 9 {
			a.M = pickU64(rt, "m", members)
		} else {
			a.M = pickU64(rt, "m", c.order)
		}
	}
	return a
}
