//go:build verif && go1.25

package raft

// C19 oracle: successive status reports of one incarnation.

import (
	"os"
	"path/filepath"
	"fmt"
)

func (c *cluster) onInfo(n *simNode, info Info) {
	sh := n.sh
	c.stats.class("info")
	if info.LastApplied > info.Committed {
		c.fail("info-order", "applied-gt-committed", "node %d reports lastApplied %d > committed %d", n.id, info.LastApplied, info.Committed)
	}
	if info.Committed > info.LastLogIndex {
		c.fail("info-order", "committed-gt-last", "node %d reports committed %d > lastLogIndex %d", n.id, info.Committed, info.LastLogIndex)
	}
	if info.FirstLogIndex-1 > info.SnapshotIndex {
		c.fail("info-order", "first-gt-snapshot", "node %d reports firstLogIndex %d but snapshotIndex %d", n.id, info.FirstLogIndex, info.SnapshotIndex)
	}
	if info.SnapshotIndex > info.LastLogIndex {
		c.fail("info-order", "snapshot-gt-last", "node %d reports snapshotIndex %d > lastLogIndex %d", n.id, info.SnapshotIndex, info.LastLogIndex)
	}
	if info.Configs.Committed.Index > info.Configs.Latest.Index {
		c.fail("info-order", "cfg-committed-gt-latest", "node %d reports committed config %d > latest config %d", n.id, info.Configs.Committed.Index, info.Configs.Latest.Index)
	}
	if p := sh.info; p != nil {
		if info.Term < p.Term {
			c.fail("info-monotonic", "term-decreased", "node %d: term went %d -> %d", n.id, p.Term, info.Term)
		}
		if info.Committed < p.Committed {
			c.fail("info-monotonic", "commit-decreased", "node %d: committed went %d -> %d", n.id, p.Committed, info.Committed)
		}
		if info.LastApplied < p.LastApplied {
			c.fail("info-monotonic", "applied-decreased", "node %d: lastApplied went %d -> %d", n.id, p.LastApplied, info.LastApplied)
		}
		if info.SnapshotIndex < p.SnapshotIndex {
			c.fail("info-monotonic", "snapshot-decreased", "node %d: snapshotIndex went %d -> %d", n.id, p.SnapshotIndex, info.SnapshotIndex)
		}
	}
	// Latest must be the newest configuration entry in log or snapshot.
	// The node is quiescent now and has not moved since it answered.
	r := n.r
	if r.lastLogIndex == info.LastLogIndex && r.log.PrevIndex()+1 == info.FirstLogIndex && r.term == info.Term {
		want, ok := c.newestConfigOf(n)
		if ok && !sameConfig(want, info.Configs.Latest) {
			c.fail("info-config", "latest-not-newest", "node %d reports latest configuration %v but the newest configuration in its log/snapshot is %v", n.id, info.Configs.Latest, want)
		}
	}
	cp := info
	sh.info = &cp
}

func sameConfig(a, b Config) bool {
	if a.Index != b.Index || a.Term != b.Term || len(a.Nodes) != len(b.Nodes) {
		return false
	}
	for id, n := range a.Nodes {
		if b.Nodes[id] != n {
			return false
		}
	}
	return true
}

// newestConfigOf inspects the node's log (back to front) and then its
// snapshot label on disk.
func (c *cluster) newestConfigOf(n *simNode) (Config, bool) {
	r := n.r
	prev, last := r.log.PrevIndex(), r.log.LastIndex()
	for i := last; i > prev; i-- {
		b, err := r.log.Get(i)
		if err != nil || len(b) < 21 {
			return Config{}, false
		}
		if entryType(b[16]) != entryConfig {
			continue
		}
		e, err := decodeEntryBytes(b)
		if err != nil {
			return Config{}, false
		}
		cfg := Config{}
		if err := cfg.decode(e); err != nil {
			return Config{}, false
		}
		return cfg, true
	}
	idx := r.snaps.index
	if idx == 0 {
		return Config{}, true
	}
	meta, err := readMeta(filepath.Join(n.dir, "snapshots"), idx)
	if err != nil {
		return Config{}, false
	}
	return meta.config, true
}

func readMeta(snapDir string, index uint64) (snapshotMeta, error) {
	f, err := os.Open(filepath.Join(snapDir, fmt.Sprintf("%d.meta", index)))
	if err != nil {
		return snapshotMeta{}, err
	}
	defer f.Close()
	m := snapshotMeta{}
	return m, m.decode(f)
}
