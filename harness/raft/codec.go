//go:build verif && go1.25

package raft

// C18: every wire / on-disk encoding round-trips, stays framed, and every proper
// prefix is rejected. Generated values, explicit oracle = structural equality
// (stated per type) + exact byte consumption.

import (
	"bufio"
	"bytes"
	"errors"
	"fmt"
	"hash/fnv"
	"io"
	"io/ioutil"
	"os"
	"reflect"
	"sort"
	"testing"
	"time"

	"pgregory.net/rapid"
)

var edgeU64 = []uint64{0, 1, 2, 255, 256, 1<<31 - 1, 1 << 31, 1<<32 - 1, 1 << 32, 1<<63 - 1, 1 << 63, 1<<63 + 1, 1<<64 - 2, 1<<64 - 1}

func genU64() *rapid.Generator[uint64] {
	return rapid.OneOf(rapid.SampledFrom(edgeU64), rapid.Uint64(), rapid.Uint64Range(0, 1000))
}

func genBytes(max int) *rapid.Generator[[]byte] {
	return rapid.Custom(func(t *rapid.T) []byte {
		switch rapid.IntRange(0, 9).Draw(t, "szclass") {
		case 0:
			return []byte{}
		case 1:
			n := rapid.IntRange(4097, max).Draw(t, "big")
			b := make([]byte, n)
			seed := rapid.Byte().Draw(t, "fill")
			for i := range b {
				b[i] = seed + byte(i*7)
			}
			return b
		default:
			return rapid.SliceOfN(rapid.Byte(), 0, 64).Draw(t, "small")
		}
	})
}

func genString() *rapid.Generator[string] {
	return rapid.OneOf(rapid.Just(""), rapid.StringN(0, 40, 200), rapid.StringMatching(`[a-z0-9.:]{1,20}`))
}

func genNode() *rapid.Generator[Node] {
	return rapid.Custom(func(t *rapid.T) Node {
		return Node{
			ID:     genU64().Draw(t, "id"),
			Addr:   genString().Draw(t, "addr"),
			Voter:  rapid.Bool().Draw(t, "voter"),
			Data:   genString().Draw(t, "data"),
			Action: Action(rapid.IntRange(0, 255).Draw(t, "action")),
		}
	})
}

func genConfig() *rapid.Generator[Config] {
	return rapid.Custom(func(t *rapid.T) Config {
		n := rapid.IntRange(0, 6).Draw(t, "nnodes")
		c := Config{Nodes: map[uint64]Node{}, Index: genU64().Draw(t, "index"), Term: genU64().Draw(t, "term")}
		for i := 0; i < n; i++ {
			nd := genNode().Draw(t, "node")
			c.Nodes[nd.ID] = nd
		}
		return c
	})
}

func genEntry() *rapid.Generator[*entry] {
	return rapid.Custom(func(t *rapid.T) *entry {
		return &entry{
			index: genU64().Draw(t, "index"),
			term:  genU64().Draw(t, "term"),
			typ:   entryType(rapid.IntRange(0, 255).Draw(t, "typ")),
			data:  genBytes(70 * 1024).Draw(t, "data"),
		}
	})
}

func configEqual(a, b Config) bool {
	if a.Index != b.Index || a.Term != b.Term || len(a.Nodes) != len(b.Nodes) {
		return false
	}
	for id, n := range a.Nodes {
		if m, ok := b.Nodes[id]; !ok || m != n {
			return false
		}
	}
	return true
}

func entryEqual(a, b *entry) bool {
	return a.index == b.index && a.term == b.term && a.typ == b.typ && bytes.Equal(a.data, b.data)
}

type codecCase struct {
	kind   string
	enc    []byte
	decode func(r *bytes.Reader) (interface{}, error) // decodes one value
	equal  func(got interface{}) error                // compares with the generated value
	nt     bool
	desc   string
}

func errEqual(a, b error) bool {
	if a == nil || b == nil {
		return a == b
	}
	ao, aok := a.(OpError)
	bo, bok := b.(OpError)
	if aok != bok {
		return false
	}
	if aok {
		return ao.Op == bo.Op && ao.Err.Error() == bo.Err.Error()
	}
	return a.Error() == b.Error()
}

func genResp(t *rapid.T) resp {
	r := resp{term: genU64().Draw(t, "term"), result: rpcResult(rapid.IntRange(1, 11).Draw(t, "result"))}
	if r.result == unexpectedErr {
		msg := genString().Draw(t, "errmsg")
		if rapid.Bool().Draw(t, "operr") {
			op := rapid.StringMatching(`[A-Za-z.()%d ]{1,20}`).Draw(t, "op")
			r.err = OpError{Op: op, Err: errors.New(msg)}
		} else {
			r.err = errors.New(msg)
		}
	}
	return r
}

func isBig(x uint64) bool { return x >= 1<<63 }

var codecKinds = []string{"entry", "voteReq", "appendReq", "installSnapReq", "timeoutNowReq", "identityReq",
	"identityResp", "voteResp", "appendResp", "installSnapResp", "timeoutNowResp", "node", "config", "snapshotMeta",
	"replication", "info", "taskResp"}

func genCodecCase(t *rapid.T) *codecCase {
	kind := rapid.SampledFrom(codecKinds).Draw(t, "kind")
	var w bytes.Buffer
	cc := &codecCase{kind: kind}
	must := func(err error) {
		if err != nil {
			t.Fatalf("encode %s: %v", kind, err)
		}
	}
	switch kind {
	case "entry":
		e := genEntry().Draw(t, "entry")
		must(e.encode(&w))
		cc.decode = func(r *bytes.Reader) (interface{}, error) { g := &entry{}; return g, g.decode(r) }
		cc.equal = func(got interface{}) error {
			if !entryEqual(e, got.(*entry)) {
				return fmt.Errorf("entry mismatch")
			}
			return nil
		}
		cc.nt = isBig(e.index) || isBig(e.term) || len(e.data) == 0 || len(e.data) > 4096
		cc.desc = fmt.Sprintf("entry{index:%d term:%d typ:%d len(data):%d}", e.index, e.term, e.typ, len(e.data))
	case "voteReq":
		q := &voteReq{req: req{genU64().Draw(t, "term"), genU64().Draw(t, "src")}, lastLogIndex: genU64().Draw(t, "lli"), lastLogTerm: genU64().Draw(t, "llt"), transfer: rapid.Bool().Draw(t, "transfer")}
		must(q.encode(&w))
		cc.decode = func(r *bytes.Reader) (interface{}, error) { g := &voteReq{}; return g, g.decode(r) }
		cc.equal = func(got interface{}) error {
			if *got.(*voteReq) != *q {
				return fmt.Errorf("got %+v want %+v", got, q)
			}
			return nil
		}
		cc.nt = isBig(q.term) || isBig(q.src) || isBig(q.lastLogIndex) || isBig(q.lastLogTerm)
		cc.desc = fmt.Sprintf("%+v", *q)
	case "appendReq":
		q := &appendReq{req: req{genU64().Draw(t, "term"), genU64().Draw(t, "src")}, prevLogIndex: genU64().Draw(t, "pli"), prevLogTerm: genU64().Draw(t, "plt"), ldrCommitIndex: genU64().Draw(t, "lci"), numEntries: genU64().Draw(t, "n")}
		must(q.encode(&w))
		cc.decode = func(r *bytes.Reader) (interface{}, error) { g := &appendReq{}; return g, g.decode(r) }
		cc.equal = func(got interface{}) error {
			if *got.(*appendReq) != *q {
				return fmt.Errorf("got %+v want %+v", got, q)
			}
			return nil
		}
		cc.nt = isBig(q.term) || isBig(q.prevLogIndex) || isBig(q.ldrCommitIndex) || isBig(q.numEntries)
		cc.desc = fmt.Sprintf("%+v", *q)
	case "installSnapReq":
		q := &installSnapReq{req: req{genU64().Draw(t, "term"), genU64().Draw(t, "src")}, lastIndex: genU64().Draw(t, "li"), lastTerm: genU64().Draw(t, "lt"), lastConfig: genConfig().Draw(t, "cfg"), size: int64(genU64().Draw(t, "size"))}
		must(q.encode(&w))
		cc.decode = func(r *bytes.Reader) (interface{}, error) { g := &installSnapReq{}; return g, g.decode(r) }
		cc.equal = func(got interface{}) error {
			g := got.(*installSnapReq)
			if g.req != q.req || g.lastIndex != q.lastIndex || g.lastTerm != q.lastTerm || g.size != q.size || !configEqual(g.lastConfig, q.lastConfig) {
				return fmt.Errorf("got %+v want %+v", g, q)
			}
			return nil
		}
		cc.nt = isBig(q.lastIndex) || q.size < 0 || len(q.lastConfig.Nodes) >= 3 || len(q.lastConfig.Nodes) == 0
		cc.desc = fmt.Sprintf("installSnapReq{lastIndex:%d size:%d nodes:%d}", q.lastIndex, q.size, len(q.lastConfig.Nodes))
	case "timeoutNowReq":
		q := &timeoutNowReq{req{genU64().Draw(t, "term"), genU64().Draw(t, "src")}}
		must(q.encode(&w))
		cc.decode = func(r *bytes.Reader) (interface{}, error) { g := &timeoutNowReq{}; return g, g.decode(r) }
		cc.equal = func(got interface{}) error {
			if *got.(*timeoutNowReq) != *q {
				return fmt.Errorf("got %+v want %+v", got, q)
			}
			return nil
		}
		cc.nt = isBig(q.term) || isBig(q.src)
		cc.desc = fmt.Sprintf("%+v", *q)
	case "identityReq":
		q := &identityReq{req: req{genU64().Draw(t, "term"), genU64().Draw(t, "src")}, cid: genU64().Draw(t, "cid"), nid: genU64().Draw(t, "nid")}
		must(q.encode(&w))
		cc.decode = func(r *bytes.Reader) (interface{}, error) { g := &identityReq{}; return g, g.decode(r) }
		cc.equal = func(got interface{}) error {
			if *got.(*identityReq) != *q {
				return fmt.Errorf("got %+v want %+v", got, q)
			}
			return nil
		}
		cc.nt = isBig(q.cid) || isBig(q.nid)
		cc.desc = fmt.Sprintf("%+v", *q)
	case "identityResp", "voteResp", "installSnapResp", "timeoutNowResp":
		rs := genResp(t)
		mk := func() response {
			switch kind {
			case "identityResp":
				return &identityResp{}
			case "voteResp":
				return &voteResp{}
			case "installSnapResp":
				return &installSnapResp{}
			}
			return &timeoutNowResp{}
		}
		src := mk()
		switch s := src.(type) {
		case *identityResp:
			s.resp = rs
		case *voteResp:
			s.resp = rs
		case *installSnapResp:
			s.resp = rs
		case *timeoutNowResp:
			s.resp = rs
		}
		must(src.encode(&w))
		cc.decode = func(r *bytes.Reader) (interface{}, error) { g := mk(); return g, g.decode(r) }
		cc.equal = func(got interface{}) error {
			g := got.(response)
			if g.getTerm() != rs.term || g.getResult() != rs.result || !errEqual(g.getErr(), rs.err) {
				return fmt.Errorf("got term %d result %d err %v want %+v", g.getTerm(), g.getResult(), g.getErr(), rs)
			}
			return nil
		}
		cc.nt = isBig(rs.term) || rs.result == unexpectedErr
		cc.desc = fmt.Sprintf("%s{term:%d result:%s err:%v}", kind, rs.term, resultName(rs.result), rs.err)
	case "appendResp":
		rs := genResp(t)
		q := &appendResp{resp: rs, lastLogIndex: genU64().Draw(t, "lli")}
		must(q.encode(&w))
		cc.decode = func(r *bytes.Reader) (interface{}, error) { g := &appendResp{}; return g, g.decode(r) }
		cc.equal = func(got interface{}) error {
			g := got.(*appendResp)
			if g.term != rs.term || g.result != rs.result || !errEqual(g.err, rs.err) || g.lastLogIndex != q.lastLogIndex {
				return fmt.Errorf("got %+v want %+v", g, q)
			}
			return nil
		}
		cc.nt = isBig(rs.term) || isBig(q.lastLogIndex) || rs.result == unexpectedErr
		cc.desc = fmt.Sprintf("appendResp{term:%d result:%s lastLogIndex:%d err:%v}", rs.term, resultName(rs.result), q.lastLogIndex, rs.err)
	case "node":
		n := genNode().Draw(t, "node")
		must(n.encode(&w))
		cc.decode = func(r *bytes.Reader) (interface{}, error) { g := &Node{}; return g, g.decode(r) }
		cc.equal = func(got interface{}) error {
			if *got.(*Node) != n {
				return fmt.Errorf("got %+v want %+v", got, n)
			}
			return nil
		}
		cc.nt = isBig(n.ID) || n.Addr == "" || n.Action > ForceRemove
		cc.desc = fmt.Sprintf("%+v", n)
	case "config":
		c := genConfig().Draw(t, "config")
		must(c.encode().encode(&w))
		cc.decode = func(r *bytes.Reader) (interface{}, error) {
			e := &entry{}
			if err := e.decode(r); err != nil {
				return nil, err
			}
			g := &Config{}
			return g, g.decode(e)
		}
		cc.equal = func(got interface{}) error {
			if !configEqual(*got.(*Config), c) {
				return fmt.Errorf("got %v want %v", got, c)
			}
			return nil
		}
		cc.nt = len(c.Nodes) == 0 || len(c.Nodes) >= 3 || isBig(c.Index)
		cc.desc = fmt.Sprintf("Config{index:%d term:%d nodes:%d}", c.Index, c.Term, len(c.Nodes))
	case "snapshotMeta":
		m := &snapshotMeta{index: genU64().Draw(t, "index"), term: genU64().Draw(t, "term"), config: genConfig().Draw(t, "cfg"), size: int64(genU64().Draw(t, "size"))}
		must(m.encode(&w))
		cc.decode = func(r *bytes.Reader) (interface{}, error) { g := &snapshotMeta{}; return g, g.decode(r) }
		cc.equal = func(got interface{}) error {
			g := got.(*snapshotMeta)
			if g.index != m.index || g.term != m.term || g.size != m.size || !configEqual(g.config, m.config) {
				return fmt.Errorf("got %+v want %+v", g, m)
			}
			return nil
		}
		cc.nt = isBig(m.index) || isBig(m.term) || m.size < 0 || len(m.config.Nodes) >= 3
		cc.desc = fmt.Sprintf("snapshotMeta{index:%d term:%d size:%d nodes:%d}", m.index, m.term, m.size, len(m.config.Nodes))
	case "replication":
		rp := genReplication(t)
		must(rp.encode(&w))
		cc.decode = func(r *bytes.Reader) (interface{}, error) { g := &Replication{}; return g, g.decode(r) }
		cc.equal = func(got interface{}) error { return replicationEqual(*got.(*Replication), rp) }
		cc.nt = isBig(rp.ID) || isBig(rp.MatchIndex) || rp.Unreachable != nil || rp.ErrMessage != ""
		cc.desc = fmt.Sprintf("Replication{ID:%d match:%d unreachable:%v err:%q round:%d}", rp.ID, rp.MatchIndex, rp.Unreachable != nil, rp.ErrMessage, rp.Round)
	case "info":
		in := genInfo(t)
		must(in.encode(&w))
		cc.decode = func(r *bytes.Reader) (interface{}, error) { g := &Info{}; return g, g.decode(r) }
		cc.equal = func(got interface{}) error { return infoEqual(*got.(*Info), in) }
		cc.nt = isBig(in.Term) || len(in.Followers) >= 2 || len(in.Configs.Latest.Nodes) >= 3
		cc.desc = fmt.Sprintf("Info{nid:%d term:%d state:%c followers:%d latestNodes:%d}", in.NID, in.Term, in.State, len(in.Followers), len(in.Configs.Latest.Nodes))
	case "taskResp":
		return genTaskRespCase(t)
	}
	cc.enc = w.Bytes()
	return cc
}

func genReplication(t *rapid.T) Replication {
	rp := Replication{ID: genU64().Draw(t, "id"), MatchIndex: genU64().Draw(t, "match"), Round: genU64().Draw(t, "round")}
	if rapid.Bool().Draw(t, "unreachable") {
		ns := rapid.Int64().Filter(func(v int64) bool { return v != 0 }).Draw(t, "unixnano")
		tm := time.Unix(0, ns)
		rp.Unreachable = &tm
	}
	rp.ErrMessage = genString().Draw(t, "errmsg")
	if rp.ErrMessage != "" {
		rp.Err = errors.New(rp.ErrMessage)
	}
	return rp
}

func replicationEqual(g, w Replication) error {
	if g.ID != w.ID || g.MatchIndex != w.MatchIndex || g.Round != w.Round || g.ErrMessage != w.ErrMessage {
		return fmt.Errorf("got %+v want %+v", g, w)
	}
	if (g.Unreachable == nil) != (w.Unreachable == nil) || (g.Unreachable != nil && !g.Unreachable.Equal(*w.Unreachable)) {
		return fmt.Errorf("unreachable: got %v want %v", g.Unreachable, w.Unreachable)
	}
	if (g.Err == nil) != (w.Err == nil) || (g.Err != nil && g.Err.Error() != w.Err.Error()) {
		return fmt.Errorf("err: got %v want %v", g.Err, w.Err)
	}
	return nil
}

func genInfo(t *rapid.T) Info {
	in := Info{
		CID: genU64().Draw(t, "cid"), NID: genU64().Draw(t, "nid"), Addr: genString().Draw(t, "addr"),
		Term: genU64().Draw(t, "term"), State: State(rapid.Byte().Draw(t, "state")), Leader: genU64().Draw(t, "leader"),
		SnapshotIndex: genU64().Draw(t, "si"), FirstLogIndex: genU64().Draw(t, "fi"), LastLogIndex: genU64().Draw(t, "li"),
		LastLogTerm: genU64().Draw(t, "lt"), Committed: genU64().Draw(t, "ci"), LastApplied: genU64().Draw(t, "la"),
		Configs: Configs{Committed: genConfig().Draw(t, "cc"), Latest: genConfig().Draw(t, "cl")},
	}
	n := rapid.IntRange(0, 4).Draw(t, "nflr")
	if n > 0 {
		in.Followers = map[uint64]Replication{}
		for i := 0; i < n; i++ {
			rp := genReplication(t)
			in.Followers[rp.ID] = rp
		}
	}
	return in
}

func infoEqual(g, w Info) error {
	if g.CID != w.CID || g.NID != w.NID || g.Addr != w.Addr || g.Term != w.Term || g.State != w.State || g.Leader != w.Leader ||
		g.SnapshotIndex != w.SnapshotIndex || g.FirstLogIndex != w.FirstLogIndex || g.LastLogIndex != w.LastLogIndex ||
		g.LastLogTerm != w.LastLogTerm || g.Committed != w.Committed || g.LastApplied != w.LastApplied {
		return fmt.Errorf("scalar fields: got %+v want %+v", g, w)
	}
	if !configEqual(g.Configs.Committed, w.Configs.Committed) || !configEqual(g.Configs.Latest, w.Configs.Latest) {
		return fmt.Errorf("configs differ")
	}
	if len(g.Followers) != len(w.Followers) {
		return fmt.Errorf("followers: got %d want %d", len(g.Followers), len(w.Followers))
	}
	for id, rp := range w.Followers {
		gr, ok := g.Followers[id]
		if !ok {
			return fmt.Errorf("follower %d missing", id)
		}
		if err := replicationEqual(gr, rp); err != nil {
			return err
		}
	}
	return nil
}

// fixedTask is a completed task with a chosen result.
type fixedTask struct{ *task }

func doneTask(result interface{}) Task {
	t := newTask()
	t.reply(result)
	return fixedTask{t}
}

var sentinels = []error{ErrLockExists, ErrServerClosed, ErrNodeRemoved, ErrIdentityAlreadySet, ErrIdentityNotSet, ErrFaultyFollower,
	ErrStaleConfig, ErrSnapshotThreshold, ErrNoUpdates, ErrQuorumUnreachable, ErrTransferNoVoter, ErrTransferSelf,
	ErrTransferTargetNonvoter, ErrTransferInvalidTarget}

func genTaskRespCase(t *rapid.T) *codecCase {
	cc := &codecCase{kind: "taskResp"}
	var w bytes.Buffer
	typ := rapid.SampledFrom([]taskType{taskInfo, taskChangeConfig, taskWaitForStableConfig, taskTakeSnapshot, taskTransferLdr}).Draw(t, "tasktype")
	var check func(res interface{}, err error) error
	var tk Task
	switch rapid.IntRange(0, 6).Draw(t, "outcome") {
	case 0: // NotLeaderError
		e := NotLeaderError{Leader: genNode().Draw(t, "leader"), Lost: rapid.Bool().Draw(t, "lost")}
		tk = doneTask(e)
		check = func(res interface{}, err error) error {
			g, ok := err.(NotLeaderError)
			if !ok || g != e {
				return fmt.Errorf("got %#v want %#v", err, e)
			}
			return nil
		}
		cc.nt = true
		cc.desc = fmt.Sprintf("taskResp NotLeaderError{leader:%d lost:%v}", e.Leader.ID, e.Lost)
	case 1: // InProgressError: recognised by kind
		e := InProgressError(rapid.SampledFrom([]string{"transferLeadership", "configChange", "takeSnapshot", "demoteLeader", "removeLeader"}).Draw(t, "what"))
		tk = doneTask(e)
		check = func(res interface{}, err error) error {
			if _, ok := err.(InProgressError); !ok {
				return fmt.Errorf("got %#v, want an InProgressError", err)
			}
			if _, ok := err.(TemporaryError); !ok {
				return fmt.Errorf("decoded InProgressError is not temporary")
			}
			return nil
		}
		cc.nt = true
		cc.desc = "taskResp " + e.Error()
	case 2: // sentinel: equality
		e := rapid.SampledFrom(sentinels).Draw(t, "sentinel")
		tk = doneTask(e)
		check = func(res interface{}, err error) error {
			if err != e {
				return fmt.Errorf("got %#v want sentinel %#v", err, e)
			}
			return nil
		}
		cc.nt = true
		cc.desc = "taskResp sentinel " + e.Error()
	case 3: // not-ready: equality and temporary
		tk = doneTask(ErrNotCommitReady)
		check = func(res interface{}, err error) error {
			if err != ErrNotCommitReady {
				return fmt.Errorf("got %#v want ErrNotCommitReady", err)
			}
			if _, ok := err.(TemporaryError); !ok {
				return fmt.Errorf("decoded ErrNotCommitReady is not temporary")
			}
			return nil
		}
		cc.nt = true
		cc.desc = "taskResp ErrNotCommitReady"
	case 4: // other error: message preserved
		msg := genString().Draw(t, "msg")
		e := errors.New(msg)
		tk = doneTask(e)
		check = func(res interface{}, err error) error {
			if err == nil || err.Error() != msg {
				return fmt.Errorf("got %#v want message %q", err, msg)
			}
			return nil
		}
		cc.desc = fmt.Sprintf("taskResp error %q", msg)
	default: // success with the result type of the task
		switch typ {
		case taskInfo:
			in := genInfo(t)
			tk = doneTask(in)
			check = func(res interface{}, err error) error {
				if err != nil {
					return err
				}
				g, ok := res.(Info)
				if !ok {
					return fmt.Errorf("result %T", res)
				}
				return infoEqual(g, in)
			}
			cc.desc = "taskResp Info"
		case taskWaitForStableConfig:
			c := genConfig().Draw(t, "cfg")
			tk = doneTask(c)
			check = func(res interface{}, err error) error {
				if err != nil {
					return err
				}
				g, ok := res.(Config)
				if !ok || !configEqual(g, c) {
					return fmt.Errorf("got %v want %v", res, c)
				}
				return nil
			}
			cc.desc = "taskResp Config"
		case taskTakeSnapshot:
			v := genU64().Draw(t, "snapindex")
			tk = doneTask(v)
			check = func(res interface{}, err error) error {
				if err != nil {
					return err
				}
				if g, ok := res.(uint64); !ok || g != v {
					return fmt.Errorf("got %v want %d", res, v)
				}
				return nil
			}
			cc.nt = isBig(v)
			cc.desc = fmt.Sprintf("taskResp snapshot index %d", v)
		default:
			tk = doneTask(nil)
			check = func(res interface{}, err error) error {
				if err != nil || res != nil {
					return fmt.Errorf("got (%v, %v) want (nil, nil)", res, err)
				}
				return nil
			}
			cc.desc = "taskResp ok"
		}
	}
	if err := encodeTaskResp(tk, &w); err != nil {
		t.Fatalf("encodeTaskResp: %v", err)
	}
	cc.enc = w.Bytes()
	type pair struct {
		res interface{}
		err error
	}
	cc.decode = func(r *bytes.Reader) (interface{}, error) {
		res, err := decodeTaskResp(typ, r)
		// transport-level failure = truncated stream; a decoded task error is a value
		if err != nil && isDecodedTaskError(err) {
			return pair{nil, err}, nil
		}
		if err != nil {
			return nil, err
		}
		return pair{res, nil}, nil
	}
	cc.equal = func(got interface{}) error { p := got.(pair); return check(p.res, p.err) }
	return cc
}

func isDecodedTaskError(err error) bool {
	switch err.(type) {
	case NotLeaderError, plainError, temporaryError, InProgressError:
		return true
	}
	// errors.New(...) produced for unknown kinds: a fresh value, never io.EOF itself
	return reflect.TypeOf(err).String() == "*errors.errorString" && err != io.EOF && err != io.ErrUnexpectedEOF && err.Error() != "invalidTaskType"
}

type aggStats struct {
	evals   int
	nt      map[uint64]bool
	classes map[string]int
	samples []string
}

func newAgg() *aggStats { return &aggStats{nt: map[uint64]bool{}, classes: map[string]int{}} }

func (a *aggStats) flush() {
	hs := make([]uint64, 0, len(a.nt))
	for h := range a.nt {
		hs = append(hs, h)
	}
	sort.Slice(hs, func(i, j int) bool { return hs[i] < hs[j] })
	emit(map[string]interface{}{"agg": true, "evaluations": a.evals, "nt_hashes": hs, "cls": a.classes, "samples": a.samples})
}

func TestVerif_C18(t *testing.T) {
	agg := newAgg()
	defer agg.flush()
	// persisted values first: a handful of deterministic edge values, then generated ones
	t.Run("codec", func(t *testing.T) {
		rapid.Check(t, func(rt *rapid.T) {
			cc := genCodecCase(rt)
			tail := genBytes(5000).Draw(rt, "tail")
			agg.evals++
			agg.classes[cc.kind]++
			if cc.nt {
				h := fnv.New64a()
				h.Write(cc.enc)
				agg.nt[h.Sum64()] = true
				if len(agg.samples) < 12 && agg.classes[cc.kind] < 3 {
					agg.samples = append(agg.samples, cc.desc)
				}
			}
			// round trip with arbitrary trailing bytes: exact value, exact consumption
			stream := append(append([]byte(nil), cc.enc...), tail...)
			r := bytes.NewReader(stream)
			got, err := cc.decode(r)
			if err != nil {
				codecFail(rt, cc, "decode of a complete encoding failed: %v", err)
			}
			if err := cc.equal(got); err != nil {
				codecFail(rt, cc, "round trip changed the value: %v", err)
			}
			if r.Len() != len(tail) {
				codecFail(rt, cc, "decoder consumed %d bytes of a %d byte encoding", len(stream)-r.Len(), len(cc.enc))
			}
			rest, _ := ioutil.ReadAll(r)
			if !bytes.Equal(rest, tail) {
				codecFail(rt, cc, "trailing bytes changed")
			}
			// proper prefixes: error, no panic. All prefixes for short encodings,
			// sampled ones (always including len-1 and field boundaries nearby) for long ones
			n := len(cc.enc)
			cuts := map[int]bool{0: true, n - 1: true, n / 2: true}
			if n <= 256 {
				for i := 0; i < n; i++ {
					cuts[i] = true
				}
			} else {
				for i := 0; i < 40; i++ {
					cuts[rapid.IntRange(0, n-1).Draw(rt, "cut")] = true
				}
				for i := 0; i < 64 && i < n; i++ {
					cuts[i] = true
					cuts[n-1-i] = true
				}
			}
			for cut := range cuts {
				if cut < 0 || cut >= n {
					continue
				}
				func() {
					defer func() {
						if v := recover(); v != nil {
							codecFail(rt, cc, "decoder panicked on a %d byte prefix of a %d byte encoding: %v", cut, n, v)
						}
					}()
					if _, err := cc.decode(bytes.NewReader(cc.enc[:cut])); err == nil {
						codecFail(rt, cc, "decoder accepted a %d byte prefix of a %d byte encoding", cut, n)
					}
				}()
			}
		})
	})
	t.Run("appendStream", func(t *testing.T) {
		rapid.Check(t, func(rt *rapid.T) { appendStreamProp(rt, agg) })
	})
	t.Run("persisted", func(t *testing.T) {
		rapid.Check(t, func(rt *rapid.T) { persistedProp(rt, agg) })
	})
}

func codecFail(rt *rapid.T, cc *codecCase, format string, a ...interface{}) {
	msg := fmt.Sprintf(format, a...)
	ff := failFile{Property: "C18", Oracle: "codec", Key: "codec/" + cc.kind, Msg: cc.kind + ": " + msg + "; value " + cc.desc, Deciding: true}
	p := writeFailFile(ff)
	emit(map[string]interface{}{"h": "x", "nt": false, "fail": map[string]interface{}{"oracle": "codec", "key": ff.Key, "msg": ff.Msg, "deciding": true, "known": knownKeys()[ff.Key], "file": p, "n": len(cc.enc)}})
	if knownKeys()[ff.Key] {
		rt.Skip("known finding " + ff.Key)
	}
	rt.Fatalf("VIOLATION C18 %s", ff.Msg)
}

// appendStreamProp: an append request followed by its entries and by the next
// pipelined request decodes entry by entry from one bufio.Reader, and
// isEntryBuffered tells the truth about what is buffered.
func appendStreamProp(rt *rapid.T, agg *aggStats) {
	n := rapid.IntRange(0, 6).Draw(rt, "nentries")
	q := &appendReq{req: req{genU64().Draw(rt, "term"), genU64().Draw(rt, "src")}, prevLogIndex: genU64().Draw(rt, "pli"), prevLogTerm: genU64().Draw(rt, "plt"), ldrCommitIndex: genU64().Draw(rt, "lci"), numEntries: uint64(n)}
	var w bytes.Buffer
	_ = q.encode(&w)
	var ents []*entry
	for i := 0; i < n; i++ {
		e := genEntry().Draw(rt, "e")
		ents = append(ents, e)
		_ = e.encode(&w)
	}
	next := &voteReq{req: req{genU64().Draw(rt, "t2"), genU64().Draw(rt, "s2")}, lastLogIndex: genU64().Draw(rt, "l2")}
	_ = next.encode(&w)
	stream := w.Bytes()
	// deliver the stream in drawn chunk sizes through a bufio.Reader of drawn size
	chunk := rapid.IntRange(1, 9000).Draw(rt, "chunk")
	br := bufio.NewReaderSize(&chunkReader{b: stream, n: chunk}, rapid.SampledFrom([]int{16, 64, 4096, 65536}).Draw(rt, "bufsize"))
	agg.evals++
	agg.classes["appendStream"]++
	if n >= 2 {
		h := fnv.New64a()
		h.Write(stream)
		agg.nt[h.Sum64()] = true
	}
	fail := func(format string, a ...interface{}) {
		cc := &codecCase{kind: "appendStream", desc: fmt.Sprintf("appendReq with %d entries, chunk %d", n, chunk), enc: stream}
		codecFail(rt, cc, format, a...)
	}
	g := &appendReq{}
	if err := g.decode(br); err != nil || *g != *q {
		fail("request header: %v %+v", err, g)
	}
	for i, e := range ents {
		buffered := isEntryBuffered(br)
		if buffered {
			// the claim must be true: decoding must not need another read
			before := br.Buffered()
			ge := &entry{}
			if err := ge.decode(br); err != nil || !entryEqual(ge, e) {
				fail("entry %d: %v", i, err)
			}
			if used := 21 + len(e.data); before < used {
				fail("isEntryBuffered said yes with %d bytes buffered, entry needs %d", before, used)
			}
		} else {
			ge := &entry{}
			if err := ge.decode(br); err != nil || !entryEqual(ge, e) {
				fail("entry %d: %v", i, err)
			}
		}
	}
	g2 := &voteReq{}
	if err := g2.decode(br); err != nil || *g2 != *next {
		fail("stream lost framing after %d entries: %v %+v", n, err, g2)
	}
}

type chunkReader struct {
	b []byte
	n int
}

func (c *chunkReader) Read(p []byte) (int, error) {
	if len(c.b) == 0 {
		return 0, errors.New("EOF")
	}
	k := c.n
	if k > len(p) {
		k = len(p)
	}
	if k > len(c.b) {
		k = len(c.b)
	}
	copy(p, c.b[:k])
	c.b = c.b[k:]
	return k, nil
}

// persistedProp: identity and (term, vote) read back exactly for every 64-bit value.
func persistedProp(rt *rapid.T, agg *aggStats) {
	cid := genU64().Filter(func(v uint64) bool { return v != 0 }).Draw(rt, "cid")
	nid := genU64().Filter(func(v uint64) bool { return v != 0 }).Draw(rt, "nid")
	term := genU64().Draw(rt, "term")
	vote := genU64().Draw(rt, "vote")
	agg.evals++
	agg.classes["persisted"]++
	if isBig(cid) || isBig(nid) || isBig(term) || isBig(vote) {
		h := fnv.New64a()
		fmt.Fprintf(h, "%d/%d/%d/%d", cid, nid, term, vote)
		agg.nt[h.Sum64()] = true
		if agg.classes["persisted-sampled"] < 3 {
			agg.classes["persisted-sampled"]++
			agg.samples = append(agg.samples, fmt.Sprintf("persisted cid=%d nid=%d term=%d vote=%d", cid, nid, term, vote))
		}
	}
	dir, err := ioutil.TempDir(shmRoot(), "verif-c18-")
	if err != nil {
		rt.Fatalf("tempdir: %v", err)
	}
	defer os.RemoveAll(dir)
	fail := func(key, format string, a ...interface{}) {
		cc := &codecCase{kind: key, desc: fmt.Sprintf("cid=%d nid=%d term=%d vote=%d", cid, nid, term, vote)}
		codecFail(rt, cc, format, a...)
	}
	if err := SetIdentity(dir, cid, nid); err != nil {
		fail("persisted-identity", "SetIdentity failed: %v", err)
	}
	opt := DefaultOptions()
	opt.Logger = nil
	st, err := openStorage(dir, opt)
	if err != nil {
		fail("persisted-identity", "identity written by SetIdentity cannot be read back: %v", err)
	}
	if st.cid != cid || st.nid != nid {
		fail("persisted-identity", "identity read back as (%d,%d)", st.cid, st.nid)
	}
	// term and vote through the real setters
	func() {
		defer func() {
			if v := recover(); v != nil {
				fail("persisted-term", "setVotedFor panicked: %v", v)
			}
		}()
		st.setVotedFor(term, vote)
	}()
	_ = st.log.Close()
	st2, err := openStorage(dir, opt)
	if err != nil {
		fail("persisted-term", "(term, vote) written by setVotedFor cannot be read back: %v", err)
	}
	if st2.term != term || st2.votedFor != vote {
		fail("persisted-term", "(term, vote) read back as (%d,%d)", st2.term, st2.votedFor)
	}
	_ = st2.log.Close()
	// and through New, as a user would
	r, err := New(optForNew(), &recFSM{}, dir)
	if err != nil {
		fail("persisted-identity", "New on the directory failed: %v", err)
	}
	if r.CID() != cid || r.NID() != nid {
		fail("persisted-identity", "New reports identity (%d,%d)", r.CID(), r.NID())
	}
	_ = r.storage.log.Close()
}

func optForNew() Options {
	o := DefaultOptions()
	o.Logger = nil
	return o
}
