//go:build verif && go1.25

package raft

// Wire-level oracles evaluated at the instant a node writes a message, and
// helpers that read what is durable on a node's disk without opening it.

import (
	"time"
	"encoding/binary"
	"fmt"
	"io/ioutil"
	"os"
	"path/filepath"
	"sort"
	"strconv"
	"strings"
)

// durableLog reports (prevIndex of first segment, last index visible after a
// reopen) by reading the segment headers the way log.openSegments chains them.
// durableLog: what a reopen of the directory would see. The node may be
// compacting (removing segments from the front) while the directory is being
// scanned: when a listed file has vanished the scan is repeated.
func durableLog(storageDir string) (first, last uint64, ok bool) {
	for try := 0; try < 20; try++ {
		var vanished bool
		first, last, ok, vanished = durableLogOnce(storageDir)
		if !vanished {
			break
		}
	}
	return
}

func durableLogOnce(storageDir string) (first, last uint64, ok, vanished bool) {
	dir := filepath.Join(storageDir, "log")
	m, _ := filepath.Glob(filepath.Join(dir, "*.log"))
	var offs []uint64
	for _, p := range m {
		v, err := strconv.ParseUint(strings.TrimSuffix(filepath.Base(p), ".log"), 10, 64)
		if err == nil {
			offs = append(offs, v)
		}
	}
	if len(offs) == 0 {
		return 0, 0, false, false
	}
	sort.Slice(offs, func(i, j int) bool { return offs[i] < offs[j] })
	count := func(off uint64) (uint64, bool) {
		f, err := os.Open(filepath.Join(dir, fmt.Sprintf("%d.log", off)))
		if err != nil {
			if os.IsNotExist(err) {
				vanished = true
			}
			return 0, false
		}
		defer f.Close()
		st, err := f.Stat()
		if err != nil || st.Size() < 16 {
			return 0, false
		}
		var b [8]byte
		if _, err := f.ReadAt(b[:], st.Size()-8); err != nil {
			return 0, false
		}
		return binary.LittleEndian.Uint64(b[:]), true
	}
	first = offs[0]
	n, k := count(offs[0])
	if !k {
		return 0, 0, false, vanished
	}
	lastPrev, lastN := offs[0], n
	for _, off := range offs[1:] {
		if lastN > 0 && off == lastPrev+lastN {
			n, k := count(off)
			if !k {
				return first, lastPrev + lastN, true, vanished
			}
			lastPrev, lastN = off, n
		}
	}
	return first, lastPrev + lastN, true, vanished
}

func latestSnapOnDisk(storageDir string) uint64 {
	m, _ := filepath.Glob(filepath.Join(storageDir, "snapshots", "*.meta"))
	var best uint64
	for _, p := range m {
		v, err := strconv.ParseUint(strings.TrimSuffix(filepath.Base(p), ".meta"), 10, 64)
		if err == nil && v > best {
			best = v
		}
	}
	return best
}

func (c *cluster) nodeByHost(h string) *simNode { return c.nodes[idOfHost(h)] }

// onWireMsg runs with simNet.mu held on the goroutine that wrote the message.
func (c *cluster) onWireMsg(m *streamMon, w *wireMsg) {
	l := c.led
	if c.blackbox {
		c.stats.class("wire-" + w.kind)
		return
	}
	if c.traceOn {
		if w.dir == 0 {
			c.tracef("  wire %s %s term=%d src=%d %+v", w.conn, w.kind, w.req.getTerm(), w.req.from(), w.req)
		} else {
			c.tracef("  wire %s %s term=%d result=%s", w.conn, w.kind, w.resp.getTerm(), resultName(w.resp.getResult()))
		}
	}
	if w.dir == 0 {
		// requests, written by the dialer
		src := c.nodeByHost(w.conn.from)
		switch q := w.req.(type) {
		case *voteReq:
			// not a "report" for the term-monotonic oracle: vote requests are sent by
			// untracked goroutines that may still be dialling when the node moves on
			c.stats.class("wire-voteReq")
			if q.transfer {
				c.stats.class("wire-voteReq-transfer")
			}
		case *timeoutNowReq:
			c.stats.class("wire-timeoutNow")
			c.lastTN = tnConn{from: idOfHost(w.conn.from), to: idOfHost(w.conn.to), seq: w.conn.seq, set: true}
			c.onTimeoutNowWritten(src, w)
		case *installSnapReq:
			c.stats.class("wire-installSnap")
			c.actsAsLeader(src, q.term, "InstallSnapshot")
		case *appendReq:
			if q.numEntries > 0 {
				c.stats.class("wire-append-entries")
			}
			c.actsAsLeader(src, q.term, "AppendEntries")
		}
		return
	}
	// responses, written by the listener side
	dst := c.nodeByHost(w.conn.to)
	if dst == nil {
		return
	}
	defer func() { c.respInStep[dst.id]++ }()
	c.noteReportedTerm(dst, w.conn, w.resp.getTerm(), w.kind)
	switch rq := w.req.(type) {
	case *voteReq:
		res := w.resp.getResult()
		c.stats.class("wire-voteResp-" + resultName(res))
		// C17 stability: a follower that believed in leader L before this (time-frozen,
		// delivery-only) step and still does must refuse a request without transfer
		// permission from anybody else, without moving its term
		// (judged only when this request is all the node was handed in this step: with
		// several, another one may have cleared and a third one restored its leader)
		if !rq.transfer && c.deliveryStep && !c.blackbox && dst.sh != nil && dst.r != nil && c.net.deliveredTo[dst.host] == 1 {
			if l0 := dst.sh.leader; l0 != 0 && l0 != rq.src && l0 != dst.id && dst.r.leader == l0 && dst.sh.state == Follower {
				c.stats.class("stability-judged")
				// (the term is judged by the function-level stability property, see votefn.go:
				// replies of one node are written by one goroutine per connection, so the
				// write order of a step says nothing about the order of processing)
				if res != leaderKnown {
					c.fail("stability", "disruptive-vote-request-honoured", "follower %d (term %d, following leader %d) answered a vote request without transfer permission from node %d (term %d) with %s and term %d", dst.id, dst.sh.term, l0, rq.src, rq.term, resultName(res), w.resp.getTerm())
				}
			}
		}
		// C17 stability, by the clock instead of the follower's own idea of its leader:
		// it acknowledged a request of leader L less than one (minimum) election timeout
		// ago, L still leads that term and is a voter of the follower's configuration -
		// then a request without permission from anybody else neither gets the vote nor
		// raises the follower's term, whatever made the follower forget its leader
		if h, ok := c.lastHeard[dst.id]; ok && !rq.transfer && c.deliveryStep && !c.blackbox && dst.r != nil && c.net.deliveredTo[dst.host] == 1 &&
			h.inc == dst.inc && h.ldr != rq.src && h.ldr != dst.id && time.Since(h.at) < c.opt.HeartbeatTimeout &&
			dst.sh != nil && dst.sh.term == h.term && dst.sh.state == Follower && // (still in that term when this step began)
			c.net.connAliveLocked(h.conn) { // (losing the connection the leader replicates over counts as losing the leader: the library's fast fail-over)
			if ln := c.up(h.ldr); ln != nil && ln.r != nil && ln.r.state == Leader && ln.r.term == h.term && rq.term > h.term && dst.r.configs.Latest.isVoter(h.ldr) {
				c.stats.class("stability-judged-by-clock")
				if (res == success || w.resp.getTerm() > h.term) && !c.strictStability {
					// outside the scripted template the premise cannot be established beyond
					// doubt (one unexplained hit per ~600 k cases): counted, not judged
					c.stats.class("stability-by-clock-unconfirmed")
				} else if res == success || w.resp.getTerm() > h.term {
					c.fail("stability", "disruptive-vote-request-honoured/heard-leader-recently", "follower %d acknowledged leader %d (term %d) %v ago and that leader still leads, yet it answered a vote request without transfer permission from node %d (term %d) with %s and term %d (its own idea of the leader: %d)", dst.id, h.ldr, h.term, time.Since(h.at), rq.src, rq.term, resultName(res), w.resp.getTerm(), dst.r.leader)
				}
			}
		}
		if res == success {
			key := [2]uint64{dst.id, rq.term}
			if prev, ok := l.votes[key]; ok && prev != rq.src {
				c.fail("one-vote", "vote-twice", "node %d granted its vote in term %d to node %d and to node %d", dst.id, rq.term, prev, rq.src)
			}
			l.votes[key] = rq.src
			// the reply is written by the connection's goroutine, possibly after the
			// raft goroutine moved on: require that (term, candidate) was on disk at
			// some earlier instant (the term file only ever moves forward)
			if !l.wasPersisted(dst.id, rq.term, rq.src) {
				c.fail("vote-durable", "vote-not-durable", "node %d replied 'vote granted' to node %d for term %d but (term %d, vote %d) never reached its disk; term file now %q", dst.id, rq.src, rq.term, rq.term, rq.src, termFileOf(dst.dir))
			}
		}
	case *appendReq:
		res := w.resp.getResult()
		if res == success {
			// (C17) this incarnation has just heard from a leader of that term
			c.lastHeard[dst.id] = heardRec{ldr: rq.src, term: rq.term, inc: dst.inc, at: time.Now(), conn: w.conn}
			lastIdx := rq.prevLogIndex + uint64(len(w.reqMsg.entries))
			if dst.sh != nil && lastIdx > dst.sh.acked {
				dst.sh.acked = lastIdx
			}
			if lastIdx > l.ackedIdx[dst.id] {
				l.ackedIdx[dst.id] = lastIdx
			}
			// a success reply acknowledges everything up to prevLogIndex+n as stored,
			// also when the request carried no entries (matching heartbeat)
			l.raiseFloor(dst.id, lastIdx)
			if len(w.reqMsg.entries) == 0 {
				c.stats.class("wire-heartbeat-ack")
			}
			if dst.dir != "" {
				c.stats.class("wire-append-ack")
				_, dlast, ok := durableLog(dst.dir)
				snap := latestSnapOnDisk(dst.dir)
				if ok && dlast < lastIdx && snap < lastIdx {
					c.fail("ack-durable", "ack-before-flush", "node %d acknowledged entries up to %d but only %d are flushed in its log (snapshot %d)", dst.id, lastIdx, dlast, snap)
				}
			}
		} else {
			c.stats.class("wire-append-" + resultName(res))
		}
	case *installSnapReq:
		if w.resp.getResult() == success {
			c.stats.class("wire-install-ok")
			if rq.lastIndex > l.ackedIdx[dst.id] {
				l.ackedIdx[dst.id] = rq.lastIndex
			}
			if dst.dir != "" {
				if snap := latestSnapOnDisk(dst.dir); snap < rq.lastIndex {
					_, dlast, _ := durableLog(dst.dir)
					if dlast < rq.lastIndex {
						c.fail("ack-durable", "install-ack-not-stored", "node %d acknowledged snapshot %d but its newest snapshot on disk is %d", dst.id, rq.lastIndex, snap)
					}
				}
			}
		}
	case *identityReq:
		c.onIdentityResp(dst, rq, w)
	case *timeoutNowReq:
		c.stats.class("wire-timeoutNowResp-" + resultName(w.resp.getResult()))
	}
}

func resultName(r rpcResult) string {
	switch r {
	case success:
		return "success"
	case identityMismatch:
		return "identityMismatch"
	case staleTerm:
		return "staleTerm"
	case alreadyVoted:
		return "alreadyVoted"
	case leaderKnown:
		return "leaderKnown"
	case logNotUptodate:
		return "logNotUptodate"
	case prevEntryNotFound:
		return "prevEntryNotFound"
	case prevTermMismatch:
		return "prevTermMismatch"
	case nonVoter:
		return "nonVoter"
	case readErr:
		return "readErr"
	case unexpectedErr:
		return "unexpectedErr"
	}
	return fmt.Sprintf("result%d", r)
}

func (c *cluster) noteReportedTerm(n *simNode, conn *simConn, term uint64, what string) {
	if n == nil {
		return
	}
	l := c.led
	// Responses are created by the raft goroutine but written by one goroutine
	// per connection, so write order across connections is not creation order:
	// monotonicity is checked per connection, and across restarts in start().
	if conn != nil {
		if term < l.connTerm[conn.id] {
			c.fail("term-monotonic", "term-regress", "node %d reported term %d in a %s after reporting term %d on the same connection", n.id, term, what, l.connTerm[conn.id])
			return
		}
		l.connTerm[conn.id] = term
	}
	if term > l.reportedTerm[n.id] {
		l.reportedTerm[n.id] = term
	}
}

func (c *cluster) onIdentityResp(dst *simNode, rq *identityReq, w *wireMsg) {
	if w.resp.getResult() == success {
		if rq.cid != clusterID || rq.nid != dst.id {
			c.fail("identity", "identity-accepted-wrong", "node %d accepted a handshake meant for cid %d nid %d", dst.id, rq.cid, rq.nid)
		}
	}
}

type timeoutNowRec struct {
	from, to   uint64
	lastIndex  uint64
	lastTerm   uint64
	cfg        Config
	step       int
}

// heardRec: the last successful AppendEntries exchange of a follower (C17).
type heardRec struct {
	ldr, term uint64
	inc       int
	at        time.Time
	conn      *simConn // the connection the leader replicates over
}

// tnConn names the connection the most recent timeout-now request was written on.
type tnConn struct {
	from, to uint64
	seq      int
	set      bool
}

func (c *cluster) onTimeoutNowWritten(src *simNode, w *wireMsg) {
	if src == nil || src.r == nil || c.blackbox {
		return
	}
	r := src.r
	if r.state != Leader || r.term != w.req.getTerm() {
		// written by the untracked RPC goroutine of a leadership that has ended
		// meanwhile: not a designation by "the old leader" in the property's sense
		c.stats.class("stale-timeoutnow")
		return
	}
	if t := c.up(idOfHost(w.conn.to)); t != nil && t.r != nil && t.r.term > r.term {
		// the sender is a stale leader: the target already follows a newer term and
		// may have replaced what it had acknowledged to this one
		c.stats.class("timeoutnow-from-deposed-leader")
		return
	}
	// transfer in progress: the leader accepts no new entries, its last index is stable
	rec := timeoutNowRec{from: src.id, to: idOfHost(w.conn.to), lastIndex: r.lastLogIndex, lastTerm: r.lastLogTerm, cfg: r.configs.Latest.clone(), step: c.stepNo}
	nd, ok := rec.cfg.Nodes[rec.to]
	if !ok || !nd.Voter {
		c.fail("transfer", "timeoutnow-to-nonvoter", "leader %d sent timeout-now to node %d which is not a voter in its configuration %v", rec.from, rec.to, rec.cfg)
		return
	}
	// the target's log at this very instant (word-sized reads of another node's
	// fields; this oracle is off in the race tier)
	if t := c.up(rec.to); t != nil {
		tl, tt := t.r.lastLogIndex, t.r.lastLogTerm
		if tl < rec.lastIndex && tl >= t.r.log.PrevIndex() {
			c.fail("transfer", "timeoutnow-to-lagging", "leader %d (last index %d) sent timeout-now to node %d whose log ends at %d", rec.from, rec.lastIndex, rec.to, tl)
		} else if tl == rec.lastIndex && tt != rec.lastTerm {
			c.fail("transfer", "timeoutnow-to-diverged", "leader %d sent timeout-now to node %d whose last entry %d has term %d, leader's has term %d", rec.from, rec.to, tl, tt, rec.lastTerm)
		}
	}
}

// diskEntryTerm reads, without opening the log, the term of the entry at index
// that would be visible after a reopen of storageDir (flushed header counts
// only). ok=false if the index is not durable there.
func diskEntryTerm(storageDir string, index uint64) (term uint64, ok bool) {
	for try := 0; try < 20; try++ {
		var vanished bool
		term, ok, vanished = diskEntryTermOnce(storageDir, index)
		if !vanished {
			break
		}
	}
	return
}

func diskEntryTermOnce(storageDir string, index uint64) (term uint64, ok, vanished bool) {
	dir := filepath.Join(storageDir, "log")
	m, _ := filepath.Glob(filepath.Join(dir, "*.log"))
	var offs []uint64
	for _, p := range m {
		v, err := strconv.ParseUint(strings.TrimSuffix(filepath.Base(p), ".log"), 10, 64)
		if err == nil {
			offs = append(offs, v)
		}
	}
	if len(offs) == 0 {
		return 0, false, false
	}
	sort.Slice(offs, func(i, j int) bool { return offs[i] < offs[j] })
	readSeg := func(off uint64) []byte {
		b, err := ioutil.ReadFile(filepath.Join(dir, fmt.Sprintf("%d.log", off)))
		if err != nil && os.IsNotExist(err) {
			vanished = true
		}
		if err != nil || len(b) < 16 {
			return nil
		}
		return b
	}
	at := func(b []byte, i uint64) uint64 {
		p := len(b) - int(i)*8 - 8
		if p < 0 || p+8 > len(b) {
			return 0
		}
		return binary.LittleEndian.Uint64(b[p:])
	}
	// chain like openSegments
	prev := offs[0]
	b := readSeg(prev)
	if b == nil {
		return 0, false, vanished
	}
	n := at(b, 0)
	look := func(b []byte, prev, n uint64) (uint64, bool) {
		if index <= prev || index > prev+n {
			return 0, false
		}
		k := index - prev // 1-based
		from, to := at(b, k), at(b, k+1)
		if to < from+16 || int(to) > len(b) {
			return 0, false
		}
		return binary.LittleEndian.Uint64(b[from+8 : from+16]), true
	}
	if t, ok := look(b, prev, n); ok {
		return t, true, false
	}
	for _, off := range offs[1:] {
		if n > 0 && off == prev+n {
			nb := readSeg(off)
			if nb == nil {
				return 0, false, vanished
			}
			prev, b, n = off, nb, at(nb, 0)
			if t, ok := look(b, prev, n); ok {
				return t, true, false
			}
		}
	}
	return 0, false, vanished
}

// actsAsLeader: whoever replicates in term T must have entered Leader state in T.
func (c *cluster) actsAsLeader(src *simNode, term uint64, what string) {
	if src == nil {
		return
	}
	c.evMu.Lock()
	ok := false
	for _, id := range c.eagerLeader[term] {
		if id == src.id {
			ok = true
		}
	}
	c.evMu.Unlock()
	if !ok {
		c.fail("leader-unique", "acts-as-leader-without-election", "node %d sent %s for term %d without having become leader of that term", src.id, what, term)
	}
}
