//go:build verif && go1.25

package raft

// Omniscient observer: ledgers filled after every step from direct inspection of
// every live node, from tracer callbacks and from the wire monitor. Each oracle
// has an id; a check makes only its own property's oracles deciding (see
// oracleProps), the others are recorded as incidental.

import (
	"bytes"
	"encoding/binary"
	"fmt"
	"hash/fnv"
	"sort"
)

type entryInfo struct {
	term     uint64
	typ      entryType
	hash     uint64
	prevTerm uint64 // 0 if unknown
	prevKnown bool
	updID    uint64 // command id for update entries
	cfg      *Config
}

type commitInfo struct {
	term uint64
	typ  entryType
	hash uint64
	updID uint64
	by   uint64 // node from whose log it was taken
	step int
	cterm uint64 // current term of the node on which it was first seen committed
}

// shadow is the observer's copy of one incarnation's log coordinates.
type shadow struct {
	terms    map[uint64]uint64 // index -> term as last observed
	prev     uint64
	last     uint64
	commit   uint64
	term     uint64
	applied  uint64
	snap     uint64
	state    State
	wasLeaderTerm uint64 // term in which it was observed Leader at the previous observation (0 = was not)
	fsmVerified int
	restoresSeen int
	info     *Info
	acked    uint64 // highest index acknowledged with success on the wire
	reported uint64 // highest term reported on the wire
	truncFloor uint64
	leader     uint64 // leader it believed in at the last observation
	xferPrev, xferNow bool // transfer in progress at the previous / this observation
}

func newShadow() *shadow { return &shadow{terms: map[uint64]uint64{}} }

type ledgers struct {
	c *cluster

	leaderOf map[uint64]uint64 // term -> nid
	votes    map[[2]uint64]uint64 // (voter, term) -> candidate
	entries  map[[2]uint64]*entryInfo // (index, term)
	commit   map[uint64]*commitInfo
	maxCommit uint64
	contigCommit uint64 // commit ledger is known for 1..contigCommit
	updIDs   []uint64 // ids of update entries in commit order (indices 1..contigCommit)
	updCount []int    // updCount[i] = number of updates in 1..i (index 0 unused -> 0)
	idIndex  map[uint64]uint64 // update id -> committed index
	everSeenID map[uint64]bool // update id seen in any log
	unobservedCommit int

	maxCommitPre uint64 // maxCommit before the current step
	cfgEntries map[uint64]map[uint64]Config // index -> term -> config

	elections int
	leadersElected int
	tasks *taskLedger
	lastCommittedCfg *Config
	committedCfgs    []Config
	persisted    map[uint64]map[[2]uint64]bool // nid -> (term, vote) pairs seen durable on its disk
	connTerm     map[int]uint64
	reportedTerm map[uint64]uint64 // nid -> highest term it put on the wire in a response or vote request
	rounds       map[[3]uint64]uint64 // (leader, term, node) -> highest target index of a completed round
	commitKnown  map[uint64]uint64 // nid -> highest commit index observed on that node (any incarnation)
	floor        map[uint64]uint64 // nid -> highest index it must still hold after a crash
	ackedIdx     map[uint64]uint64 // nid -> highest index acknowledged with success (across incarnations)
}

func newLedgers(c *cluster) *ledgers {
	return &ledgers{
		c:        c,
		leaderOf: map[uint64]uint64{},
		votes:    map[[2]uint64]uint64{},
		entries:  map[[2]uint64]*entryInfo{},
		commit:   map[uint64]*commitInfo{},
		updCount: []int{0},
		idIndex:  map[uint64]uint64{},
		everSeenID: map[uint64]bool{},
		cfgEntries: map[uint64]map[uint64]Config{},
		reportedTerm: map[uint64]uint64{},
		connTerm: map[int]uint64{},
		persisted: map[uint64]map[[2]uint64]bool{},
		ackedIdx: map[uint64]uint64{},
		floor: map[uint64]uint64{},
		commitKnown: map[uint64]uint64{},
		rounds: map[[3]uint64]uint64{},
	}
}

// onStart: a (re)started node must know a term no older than any it reported,
// and, if it had granted its vote in that term, the vote.
func (l *ledgers) onStart(n *simNode) {
	c := l.c
	r := n.r
	if c.blackbox {
		return
	}
	l.notePersisted(n.id, n.dir)
	if n.inc > 1 {
		c.stats.class("restarted")
		// everything it acknowledged as stored (or committed) and did not truncate since
		if fl := l.floor[n.id]; r.lastLogIndex < fl {
			c.fail("restart-consistent", "restart-lost-acked", "node %d restarted with last index %d although it had acknowledged/committed up to %d", n.id, r.lastLogIndex, fl)
		}
		// entries it knew to be committed (its own commit index covered them)
		if ck := l.commitKnown[n.id]; r.lastLogIndex < ck {
			c.fail("commit-stable", "committed-lost-on-restart", "node %d restarted with last index %d although its commit index had reached %d before", n.id, r.lastLogIndex, ck)
		}
		prev, snap := r.log.PrevIndex(), r.snaps.index
		if prev > snap || snap > r.lastLogIndex {
			c.fail("restart-consistent", "restart-log-snapshot-gap", "node %d restarted with log starting after %d, snapshot at %d, last index %d", n.id, prev, snap, r.lastLogIndex)
		}
		if r.log.LastIndex() != r.lastLogIndex && r.log.Count() > 0 {
			c.fail("restart-consistent", "restart-log-bookkeeping", "node %d restarted with log last index %d but lastLogIndex %d", n.id, r.log.LastIndex(), r.lastLogIndex)
		}
	}
	if rep := l.reportedTerm[n.id]; r.term < rep {
		c.fail("term-monotonic", "term-lost-on-restart", "node %d restarted with term %d after reporting term %d", n.id, r.term, rep)
	}
	if cand, ok := l.votes[[2]uint64{n.id, r.term}]; ok && r.votedFor != cand {
		c.fail("vote-durable", "vote-lost-on-restart", "node %d restarted in term %d with votedFor %d after granting its vote to %d", n.id, r.term, r.votedFor, cand)
	}
}

// onCommitAdvance runs inside the committing node's raft goroutine at the
// instant its commit index was raised (hook commit.advance): durability census.
// Only leaders are judged: they take the decision with their own latest
// configuration; a follower's configuration may lag behind the one in force.
func (l *ledgers) onCommitAdvance(inc *incarnation) {
	c := l.c
	r := inc.r
	if r.state != Leader || r.ldr == nil {
		return
	}
	index := r.commitIndex
	if index == 0 || index <= r.log.PrevIndex() || index > r.log.LastIndex() {
		return
	}
	b, err := r.log.Get(index)
	if err != nil || len(b) < 16 {
		return
	}
	term := binary.LittleEndian.Uint64(b[8:16])
	cfg := r.configs.Latest
	voters, durable := 0, 0
	var missing []uint64
	for id, nd := range cfg.Nodes {
		if !nd.Voter {
			continue
		}
		voters++
		n := c.nodes[id]
		if n == nil {
			missing = append(missing, id)
			continue
		}
		dir := n.dir
		if n.status != nodeUp {
			dir = n.image
		}
		if id == inc.id {
			dir = inc.dir
		}
		ok := false
		if dir != "" {
			if t, have := diskEntryTerm(dir, index); have && t == term {
				ok = true
			} else if latestSnapOnDisk(dir) >= index {
				ok = true
			}
		}
		if ok {
			durable++
		} else {
			missing = append(missing, id)
		}
	}
	c.stats.class("census")
	if len(cfg.Nodes) > voters {
		c.stats.class("census-with-nonvoters")
	}
	if cfg.Index > 1 && (!r.configs.IsCommitted() || cfg.Index == index) {
		c.stats.class("census-config-just-changed")
	}
	if durable < voters/2+1 {
		c.fail("durable-majority", "commit-without-durable-majority", "leader %d (term %d) raised its commit index to %d (entry term %d) while the entry is durable on %d of %d voters of %v; not on %v", inc.id, r.term, index, term, durable, voters, cfg, missing)
	}
}

func hash64(b []byte) uint64 {
	h := fnv.New64a()
	h.Write(b)
	return h.Sum64()
}

func decodeEntryBytes(b []byte) (*entry, error) {
	e := &entry{}
	err := e.decode(bytes.NewReader(b))
	return e, err
}

// ---------------------------------------------------------------- observation

// observe runs after every step, when every goroutine of the bubble is
// durably blocked.
func (c *cluster) observe() {
	l := c.led
	l.maxCommitPre = l.maxCommit
	evs := c.drainEvents()
	// pass 1: leader ledger from callbacks (transient leaderships included)
	for i := range evs {
		e := &evs[i]
		if c.traceOn {
			extra := ""
			if e.kind == "configChanged" || e.kind == "configAction" {
				extra = fmt.Sprintf(" latest=%v committed=%v", e.cfg.Latest, e.cfg.Committed)
			}
			c.tracef("  ev %s n%d#%d term=%d state=%c leader=%d commit=%d a=%d b=%d %s%s", e.kind, e.nid, e.inc, e.term, e.state, e.leader, e.commit, e.a, e.b, e.s, extra)
		}
		if e.dead {
			continue
		}
		switch e.kind {
		case "precompact":
			var prevTerm uint64
			prevKnown := false
			for _, b := range e.raw {
				ent, err := decodeEntryBytes(b)
				if err != nil {
					break
				}
				l.noteEntry(e.nid, ent, prevTerm, prevKnown)
				prevTerm, prevKnown = ent.term, true
				if ei := l.entries[[2]uint64{ent.index, ent.term}]; ei != nil {
					l.noteCommit(ent.index, ent.term, ei, e.nid, e.term)
				}
			}
			c.stats.class("precompact-recorded")
		case "state":
			if e.state == Leader {
				l.leadersElected++
				if prev, ok := l.leaderOf[e.term]; ok && prev != e.nid {
					c.fail("leader-unique", "two-leaders", "term %d has two leaders: node %d and node %d", e.term, prev, e.nid)
				}
				l.leaderOf[e.term] = e.nid
				c.stats.class("leader-elected")
				// votes actually granted on the wire (plus the self vote) must form a
				// majority of the voters of the configuration it campaigned with
				voters, granted := 0, 0
				for id, nd := range e.cfg.Latest.Nodes {
					if !nd.Voter {
						continue
					}
					voters++
					if l.votes[[2]uint64{id, e.term}] == e.nid {
						granted++
					}
				}
				if granted < voters/2+1 {
					c.fail("leader-unique", "leader-without-majority", "node %d became leader of term %d with %d granted votes of %d voters", e.nid, e.term, granted, voters)
				}
				if nd, ok := e.cfg.Latest.Nodes[e.nid]; !ok || !nd.Voter {
					c.fail("nonvoter-authority", "nonvoter-leader", "node %d became leader of term %d but is not a voter in its latest configuration", e.nid, e.term)
				}
			}
		case "election":
			l.elections++
			c.onElectionStarted(e)
		case "electionAborted":
			if e.s == "not voter" || e.s == "not part of cluster" {
				c.stats.class("nonvoter-timeout")
			}
		case "round":
			key := [3]uint64{e.nid, e.term, e.a}
			if e.b > l.rounds[key] || l.rounds[key] == 0 {
				l.rounds[key] = e.b
			}
			c.stats.class("round-completed")
		case "compacted":
			c.stats.class("compaction")
		case "crashedAt":
			c.stats.class("crashed-at-hook")
			c.stats.class("crashed-at-" + e.s)
		case "configReverted":
			c.stats.class("config-reverted")
		}
	}
	c.collectInfos()
	// pass 2: every live node
	for _, id := range c.order {
		n := c.nodes[id]
		if n.status != nodeUp {
			continue
		}
		inc := c.incOf(n)
		if inc == nil || inc.dead.Load() || inc.blocked != nil {
			continue
		}
		c.observeNode(n)
	}
	c.checkTimeoutNows()
	// pass 3: things that need the commit ledger of this step
	for i := range evs {
		e := &evs[i]
		if e.dead {
			continue
		}
		c.onEventPost(e)
	}
	for _, id := range c.order {
		n := c.nodes[id]
		if n.status == nodeUp && n.r != nil {
			c.checkFSM(n)
		}
	}
	c.pollTasks()
	c.checkExits()
}

func (c *cluster) observeNode(n *simNode) {
	l, r, sh := c.led, n.r, n.sh
	prev, last := r.log.PrevIndex(), r.lastLogIndex
	if ll := r.log.LastIndex(); ll != last {
		// the raft goroutine is between Append and its bookkeeping; use the log's own view
		last = ll
	}
	snapIdx, snapTerm := r.snaps.index, r.snaps.term
	state, term := r.state, r.term

	leaderContinuing := state == Leader && sh.wasLeaderTerm == term
	newTerms := make(map[uint64]uint64, int(last-prev))
	var prevTerm uint64
	var prevKnown bool
	if prev == snapIdx && prev > 0 {
		prevTerm, prevKnown = snapTerm, true
	} else if prev == 0 {
		prevTerm, prevKnown = 0, true
	}
	for i := prev + 1; i <= last; i++ {
		b, err := r.log.Get(i)
		if err != nil || len(b) < 21 {
			c.fail("log-read", "log-read", "node %d: cannot read own entry %d: %v", n.id, i, err)
			return
		}
		eidx := binary.LittleEndian.Uint64(b[0:8])
		et := binary.LittleEndian.Uint64(b[8:16])
		if eidx != i {
			c.fail("log-matching", "index-mismatch", "node %d: entry at %d carries index %d", n.id, i, eidx)
			return
		}
		newTerms[i] = et
		old, had := sh.terms[i]
		if !had || old != et {
			if had && leaderContinuing {
				c.fail("leader-append-only", "leader-rewrote", "node %d rewrote its own entry %d (term %d -> %d) while leader of term %d", n.id, i, old, et, term)
			}
			// a follower outside the committing majority may legitimately replace its
			// copy of an entry it does not know to be committed (stale leader's append);
			// what no node may ever touch is an entry at or below its OWN commit index
			if had && i <= sh.commit {
				if ci := l.commit[i]; ci != nil && ci.term == old {
					c.fail("commit-stable", "committed-overwritten", "node %d overwrote committed entry %d (term %d) with term %d", n.id, i, old, et)
				}
			}
			// new or changed entry: full ledger check
			e, derr := decodeEntryBytes(b)
			if derr != nil {
				c.fail("log-read", "log-decode", "node %d: entry %d does not decode: %v", n.id, i, derr)
				return
			}
			l.noteEntry(n.id, e, prevTerm, prevKnown)
		}
		prevTerm, prevKnown = et, true
	}
	// disappearance of entries
	if last < sh.last {
		for i := last + 1; i <= sh.last; i++ {
			if i <= prev {
				continue
			}
			if leaderContinuing {
				c.fail("leader-append-only", "leader-truncated", "node %d removed its own entry %d while leader of term %d", n.id, i, term)
			}
			if ci := l.commit[i]; ci != nil && i <= sh.commit && ci.term == sh.terms[i] {
				c.fail("commit-stable", "committed-truncated", "node %d truncated committed entry %d (term %d)", n.id, i, ci.term)
			}
		}
		c.stats.class("truncation")
		l.lowerFloor(n.id, last)
		if sh.truncFloor == 0 || last < sh.truncFloor {
			sh.truncFloor = last
		}
	}
	// commit ledger
	ci := r.commitIndex
	if ci > last {
		// can only be legal transiently; C19 oracle looks at Info
		ci = last
	}
	for i := sh.commit + 1; i <= ci; i++ {
		if i <= prev {
			continue
		}
		t := newTerms[i]
		ent := l.entries[[2]uint64{i, t}]
		if ent == nil {
			continue
		}
		l.noteCommit(i, t, ent, n.id, term)
	}
	if r.commitIndex > l.maxCommit {
		l.maxCommit = r.commitIndex
	}
	if state == Leader && r.commitIndex <= last {
		// a leader flushes its own log up to the commit index before advancing it
		l.raiseFloor(n.id, r.commitIndex)
	}
	l.extendContig()

	// bookkeeping
	if r.commitIndex < sh.commit {
		c.stats.class("commit-regress-raw")
	}
	sh.terms, sh.prev, sh.last = newTerms, prev, last
	if r.commitIndex > sh.commit {
		sh.commit = r.commitIndex
	}
	if r.commitIndex > l.commitKnown[n.id] && r.commitIndex <= last {
		l.commitKnown[n.id] = r.commitIndex
	}
	sh.term, sh.state, sh.snap = term, state, snapIdx
	sh.leader = r.leader
	if state == Leader && r.configs.IsCommitted() && !r.configs.Latest.isVoter(n.id) {
		c.fail("nonvoter-authority", "nonvoter-still-leader", "node %d is still leader of term %d although the committed configuration %v does not list it as voter", n.id, term, r.configs.Latest)
	}
	sh.xferPrev = sh.xferNow
	sh.xferNow = state == Leader && r.ldr != nil && r.ldr.transfer.inProgress()
	if sh.xferNow {
		c.stats.class("transfer-in-progress-observed")
	}
	if state == Leader {
		sh.wasLeaderTerm = term
		if ld, ok := l.leaderOf[term]; ok && ld != n.id {
			c.fail("leader-unique", "two-leaders", "node %d is in Leader state in term %d whose recorded leader is %d", n.id, term, ld)
		}
	} else {
		sh.wasLeaderTerm = 0
	}
}

func (l *ledgers) noteEntry(nid uint64, e *entry, prevTerm uint64, prevKnown bool) {
	c := l.c
	key := [2]uint64{e.index, e.term}
	h := hash64(e.data)
	if e.typ == entryConfig {
		// Config.encode iterates a map: byte order of nodes is not canonical
		h = canonicalConfigHash(e)
	}
	if old := l.entries[key]; old != nil {
		if old.typ != e.typ || old.hash != h {
			c.fail("log-matching", "entry-differs", "entry (index %d, term %d) seen with two contents: type %d hash %x vs type %d hash %x (node %d)", e.index, e.term, old.typ, old.hash, e.typ, h, nid)
		}
		if prevKnown && old.prevKnown && old.prevTerm != prevTerm {
			c.fail("log-matching", "prefix-differs", "entry (index %d, term %d) follows term %d on node %d but term %d elsewhere", e.index, e.term, prevTerm, nid, old.prevTerm)
		}
		if prevKnown && !old.prevKnown {
			old.prevTerm, old.prevKnown = prevTerm, true
		}
		return
	}
	ei := &entryInfo{term: e.term, typ: e.typ, hash: h, prevTerm: prevTerm, prevKnown: prevKnown}
	if e.typ == entryUpdate && len(e.data) >= 8 {
		ei.updID = binary.LittleEndian.Uint64(e.data)
		l.everSeenID[ei.updID] = true
	}
	if e.typ == entryConfig {
		cfg := Config{}
		if err := cfg.decode(e); err == nil {
			ei.cfg = &cfg
			if l.cfgEntries[e.index] == nil {
				l.cfgEntries[e.index] = map[uint64]Config{}
			}
			l.cfgEntries[e.index][e.term] = cfg
		}
	}
	l.entries[key] = ei
}

func (l *ledgers) noteCommit(i, term uint64, ent *entryInfo, by uint64, cterm uint64) {
	c := l.c
	if old := l.commit[i]; old != nil {
		if old.term != term || old.hash != ent.hash || old.typ != ent.typ {
			c.fail("commit-stable", "commit-conflict", "index %d committed as term %d (seen on node %d) and as term %d (node %d)", i, old.term, old.by, term, by)
		}
		return
	}
	l.commit[i] = &commitInfo{term: term, typ: ent.typ, hash: ent.hash, updID: ent.updID, by: by, step: c.stepNo, cterm: cterm}
	if i > l.maxCommit {
		l.maxCommit = i
	}
}

func (l *ledgers) extendContig() {
	for {
		ci := l.commit[l.contigCommit+1]
		if ci == nil {
			return
		}
		l.contigCommit++
		cnt := l.updCount[len(l.updCount)-1]
		if ci.typ == entryUpdate {
			cnt++
			l.updIDs = append(l.updIDs, ci.updID)
			if _, dup := l.idIndex[ci.updID]; dup {
				l.c.fail("exactly-once", "update-twice-in-log", "update id %d committed at two indexes (%d and %d)", ci.updID, l.idIndex[ci.updID], l.contigCommit)
			}
			l.idIndex[ci.updID] = l.contigCommit
		}
		l.updCount = append(l.updCount, cnt)
		if ci.typ == entryConfig {
			if cfg, ok := l.cfgEntries[l.contigCommit][ci.term]; ok {
				if l.lastCommittedCfg != nil {
					if d := voterDiff(*l.lastCommittedCfg, cfg); d > 1 {
						l.c.fail("config-safety", "committed-config-multi-voter-change", "committed configuration %v follows %v: %d voters differ", cfg, *l.lastCommittedCfg, d)
					}
				}
				if len(voterSet(cfg)) == 0 {
					l.c.fail("config-safety", "config-no-voter", "committed configuration %v has no voter", cfg)
				}
				cp := cfg
				l.lastCommittedCfg = &cp
				l.committedCfgs = append(l.committedCfgs, cfg)
			}
		}
	}
}

// ---------------------------------------------------------------- events

func (c *cluster) onElectionStarted(e *event) {
	// self vote
	key := [2]uint64{e.nid, e.term}
	if prev, ok := c.led.votes[key]; ok && prev != e.nid {
		c.fail("one-vote", "vote-twice", "node %d started election in term %d after voting for %d in that term", e.nid, e.term, prev)
	}
	c.led.votes[key] = e.nid
	want := fmt.Sprintf("%d-%d.term", e.term, e.nid)
	if e.s != want && !c.led.wasPersisted(e.nid, e.term, e.nid) {
		c.fail("vote-durable", "selfvote-not-durable", "node %d requests votes for term %d but its term file is %q (want %q)", e.nid, e.term, e.s, want)
	}
	if n, ok := e.cfg.Latest.Nodes[e.nid]; !ok || !n.Voter {
		c.fail("nonvoter-authority", "nonvoter-election", "node %d started an election in term %d but is not a voter in its latest configuration %v", e.nid, e.term, e.cfg.Latest)
	}
}

func (c *cluster) onEventPost(e *event) {
	l := c.led
	switch e.kind {
	case "state":
		if e.state == Leader {
			// must hold every entry committed before this step
			last := e.prev + uint64(len(e.terms))
			for i := uint64(1); i <= l.maxCommitPre; i++ {
				ci := l.commit[i]
				if ci == nil || ci.step >= c.stepNo {
					continue
				}
				if ci.cterm >= e.term {
					// leader completeness speaks about leaders of later terms; a
					// candidate of an older term may still collect delayed votes
					continue
				}
				if i <= e.prev {
					continue // compacted into its snapshot
				}
				if i > last {
					c.fail("leader-complete", "leader-missing-committed", "node %d became leader of term %d with last index %d but index %d (term %d) was committed before", e.nid, e.term, last, i, ci.term)
					break
				}
				if t := e.terms[i-e.prev-1]; t != ci.term {
					c.fail("leader-complete", "leader-differs-committed", "node %d became leader of term %d holding term %d at index %d where term %d was committed", e.nid, e.term, t, i, ci.term)
					break
				}
			}
		}
		if e.state == Candidate || e.state == Leader {
			// authority only for voters: checked on electionStarted with the config of that instant
		}
	case "snapshot":
		c.onSnapshotEvent(e)
	case "configChanged":
		c.onConfigChanged(e)
	case "shuttingDown":
		if e.s == ErrNodeRemoved.Error() {
			c.onNodeRemovedShutdown(e)
		}
	}
}

func voterSet(cfg Config) map[uint64]bool {
	m := map[uint64]bool{}
	for id, n := range cfg.Nodes {
		if n.Voter {
			m[id] = true
		}
	}
	return m
}

func voterDiff(a, b Config) int {
	va, vb := voterSet(a), voterSet(b)
	d := 0
	for id := range va {
		if !vb[id] {
			d++
		}
	}
	for id := range vb {
		if !va[id] {
			d++
		}
	}
	return d
}

func (c *cluster) onConfigChanged(e *event) {
	// e.cfg.Latest is the adopted configuration, e.cfg.Committed the one it replaces
	newC, oldC := e.cfg.Latest, e.cfg.Committed
	if oldC.Index == 0 {
		return // bootstrap / first configuration learnt
	}
	if len(voterSet(newC)) == 0 {
		c.fail("config-safety", "config-no-voter", "node %d adopted configuration %v without any voter", e.nid, newC)
	}
	// predecessor = the configuration the entry's creator derived it from; a
	// follower may legitimately skip configurations (snapshot installation)
	if newC.Index > oldC.Index && e.state == Leader {
		if d := voterDiff(oldC, newC); d > 1 {
			c.fail("config-safety", "config-multi-voter-change", "node %d adopted %v after %v: %d voters differ", e.nid, newC, oldC, d)
		}
	}
	if e.state == Leader {
		c.stats.class("leader-config-change")
		// promotions: the node must have completed a round under this leader
		for id, nn := range newC.Nodes {
			on, had := oldC.Nodes[id]
			if had && !on.Voter && nn.Voter {
				c.stats.class("promotion")
				key := [3]uint64{e.nid, e.term, id}
				target, ok := c.led.rounds[key]
				if !ok {
					c.fail("nonvoter-authority", "promotion-without-round", "leader %d (term %d) promoted node %d although no catch-up round of that node completed under this leader", e.nid, e.term, id)
					continue
				}
				if p := c.up(id); p != nil && p.sh != nil && p.sh.last < target && p.r.lastLogIndex < target {
					c.fail("nonvoter-authority", "promotion-not-caught-up", "leader %d (term %d) promoted node %d whose log ends at %d, round target was %d", e.nid, e.term, id, p.r.lastLogIndex, target)
				}
			}
		}
		if oldC.Index > e.commit {
			c.fail("config-safety", "config-before-prev-committed", "leader %d (term %d) appended configuration %d while previous configuration %d is not committed (commit index %d)", e.nid, e.term, newC.Index, oldC.Index, e.commit)
		}
		if e.b == 2 && newC.Index > 1 {
			c.fail("config-safety", "config-before-own-term-commit", "leader %d (term %d) appended configuration %d although the entry at its commit index %d is not of its own term", e.nid, e.term, newC.Index, e.commit)
		} else if e.commit < e.a {
			c.fail("config-safety", "config-before-own-term-commit", "leader %d (term %d) appended configuration %d before committing an entry of its own term (commit index %d, term start %d)", e.nid, e.term, newC.Index, e.commit, e.a)
		}
	}
}

func (c *cluster) onNodeRemovedShutdown(e *event) {
	// a configuration without the node must be committed
	l := c.led
	ok := false
	idxs := make([]uint64, 0, len(l.cfgEntries))
	for idx := range l.cfgEntries {
		idxs = append(idxs, idx)
	}
	sort.Slice(idxs, func(i, j int) bool { return idxs[i] < idxs[j] })
	for _, idx := range idxs {
		ci := l.commit[idx]
		if ci == nil {
			continue
		}
		cfg, have := l.cfgEntries[idx][ci.term]
		if !have {
			continue
		}
		if _, in := cfg.Nodes[e.nid]; !in {
			ok = true
		}
	}
	if !ok {
		c.fail("nonvoter-authority", "removed-before-commit", "node %d shut itself down as removed but no committed configuration excludes it", e.nid)
	}
}

// ---------------------------------------------------------------- FSM oracle

func (c *cluster) checkFSM(n *simNode) {
	l := c.led
	f := n.fsm
	f.mu.Lock()
	ids := f.ids
	bad := f.badCalls
	restores := f.restores
	f.mu.Unlock()
	if len(bad) > 0 {
		c.fail("fsm-agreement", "fsm-bad-call", "node %d FSM: %s", n.id, bad[0])
		return
	}
	applied := n.r.fsm.index
	if restores != n.sh.restoresSeen {
		n.sh.restoresSeen = restores
		n.sh.fsmVerified = 0
		c.stats.class("fsm-restored")
	}
	if applied > l.contigCommit {
		// the state machine is ahead of anything observed committed
		if applied > l.maxCommit {
			c.fail("fsm-agreement", "applied-uncommitted", "node %d applied index %d but the highest commit index observed anywhere is %d", n.id, applied, l.maxCommit)
		} else {
			l.unobservedCommit++
		}
		return
	}
	want := l.updCount[applied]
	if len(ids) != want {
		c.fail("fsm-agreement", "fsm-count", "node %d FSM holds %d commands at applied index %d, committed log has %d updates up to there", n.id, len(ids), applied, want)
		return
	}
	for i := n.sh.fsmVerified; i < len(ids); i++ {
		if ids[i] != l.updIDs[i] {
			c.fail("fsm-agreement", "fsm-order", "node %d FSM command #%d is id %d, committed sequence has id %d", n.id, i+1, ids[i], l.updIDs[i])
			return
		}
	}
	n.sh.fsmVerified = len(ids)
	if applied > n.sh.applied {
		n.sh.applied = applied
	}
}

func canonicalConfigHash(e *entry) uint64 {
	cfg := Config{}
	if err := cfg.decode(e); err != nil {
		return hash64(e.data)
	}
	ids := make([]uint64, 0, len(cfg.Nodes))
	for id := range cfg.Nodes {
		ids = append(ids, id)
	}
	sort.Slice(ids, func(i, j int) bool { return ids[i] < ids[j] })
	var buf bytes.Buffer
	for _, id := range ids {
		_ = cfg.Nodes[id].encode(&buf)
	}
	return hash64(buf.Bytes())
}

// notePersisted records what the node's term file says right now (called at
// start and from the hook that follows every successful term/vote rename).
func (l *ledgers) notePersisted(nid uint64, dir string) {
	var t, v uint64
	if _, err := fmt.Sscanf(termFileOf(dir), "%d-%d.term", &t, &v); err != nil {
		return
	}
	l.c.evMu.Lock()
	if l.persisted[nid] == nil {
		l.persisted[nid] = map[[2]uint64]bool{}
	}
	l.persisted[nid][[2]uint64{t, v}] = true
	l.c.evMu.Unlock()
}

func (l *ledgers) wasPersisted(nid, term, vote uint64) bool {
	l.c.evMu.Lock()
	defer l.c.evMu.Unlock()
	return l.persisted[nid][[2]uint64{term, vote}]
}

// onSnapshotEvent: C09 (content, committed) and C12 (label) oracles for every
// snapshot that reaches any disk.
func (c *cluster) onSnapshotEvent(e *event) {
	l := c.led
	m := e.meta
	c.stats.class("snapshot-stored")
	if m.index > l.maxCommit && m.index > e.commit {
		c.fail("snapshot-content", "snapshot-uncommitted", "node %d stored a snapshot at index %d, its commit index was %d, the highest commit index observed anywhere is %d", e.nid, m.index, e.commit, l.maxCommit)
		return
	}
	if m.index > l.contigCommit {
		l.unobservedCommit++
		return
	}
	ci := l.commit[m.index]
	if ci != nil && ci.term != m.term {
		c.fail("snapshot-label", "label-term", "node %d: snapshot at index %d labelled term %d, committed entry has term %d", e.nid, m.index, m.term, ci.term)
	}
	// content = committed updates up to the index
	want := l.updCount[m.index]
	if len(e.ids) != want {
		c.fail("snapshot-content", "snapshot-count", "node %d: snapshot at index %d holds %d commands, committed log has %d updates up to there", e.nid, m.index, len(e.ids), want)
	} else {
		for i, id := range e.ids {
			if id != l.updIDs[i] {
				c.fail("snapshot-content", "snapshot-order", "node %d: snapshot at index %d command #%d is id %d, committed sequence has %d", e.nid, m.index, i+1, id, l.updIDs[i])
				break
			}
		}
	}
	// label = newest committed configuration at or below the index
	var want2 *Config
	for i := range l.committedCfgs {
		if l.committedCfgs[i].Index <= m.index {
			want2 = &l.committedCfgs[i]
		}
	}
	if want2 != nil {
		if want2.Index > 1 {
			c.stats.class("snapshot-after-config-change")
		}
		if !sameConfig(*want2, m.config) {
			c.fail("snapshot-label", "label-config", "node %d: snapshot at index %d labelled with configuration %v, the configuration in force at that index is %v", e.nid, m.index, m.config, *want2)
		}
	}
}

func (l *ledgers) raiseFloor(nid, idx uint64) {
	l.c.evMu.Lock()
	if idx > l.floor[nid] {
		l.floor[nid] = idx
	}
	l.c.evMu.Unlock()
}

func (l *ledgers) lowerFloor(nid, idx uint64) {
	l.c.evMu.Lock()
	if idx < l.floor[nid] {
		l.floor[nid] = idx
	}
	l.c.evMu.Unlock()
}

func (c *cluster) checkTimeoutNows() {}
