//go:build verif && go1.25

package raft

// Task bookkeeping and the client-visible oracles (C07, parts of C02/C15/C16).

import (
	"fmt"
	"sync"
)

type caseStats struct {
	mu      sync.Mutex
	classes map[string]int
	steps   int
}

// class may be called from any goroutine of the case (hooks, wire monitor).
func (s *caseStats) class(name string) {
	s.mu.Lock()
	if s.classes == nil {
		s.classes = map[string]int{}
	}
	s.classes[name]++
	s.mu.Unlock()
}

func (s *caseStats) has(name string) bool {
	s.mu.Lock()
	defer s.mu.Unlock()
	return s.classes[name] > 0
}

func (s *caseStats) count(name string) int {
	s.mu.Lock()
	defer s.mu.Unlock()
	return s.classes[name]
}

type taskLedger struct {
	maxPosDone  int               // highest Pos among updates observed successfully complete
	definitive  map[uint64]string // update id -> why it must never take effect
	ambiguous   map[uint64]bool
	succeeded   map[uint64]int // update id -> Pos
}

func (c *cluster) tl() *taskLedger {
	if c.led.tasks == nil {
		c.led.tasks = &taskLedger{definitive: map[uint64]string{}, ambiguous: map[uint64]bool{}, succeeded: map[uint64]int{}}
	}
	return c.led.tasks
}

// pollTasks runs after the node observation of a step.
func (c *cluster) pollTasks() {
	tl := c.tl()
	l := c.led
	for _, pt := range c.tasks {
		if pt.done != 0 {
			if !pt.checked {
				continue
			}
			// a completed task must not change its result afterwards
			continue
		}
		if !taskDone(pt.t) {
			continue
		}
		pt.done = c.stepNo
		pt.checked = true
		err := pt.t.Err()
		res := pt.t.Result()
		switch pt.kind {
		case "upd":
			c.stats.class("upd-done")
			if err == nil {
				ur, ok := res.(fsmUpdateResult)
				if !ok || ur.ID != pt.id {
					c.fail("client-semantics", "update-wrong-result", "update %d on node %d returned %v", pt.id, pt.nid, res)
					continue
				}
				idx, committed := l.idIndex[pt.id]
				if !committed {
					if n := c.nodes[pt.nid]; n == nil || n.status != nodeUp || n.inc != pt.inc {
						// the incarnation died in this very step: its final log state was
						// never observed, the claim cannot be checked
						c.stats.class("upd-ok-unverifiable")
						continue
					}
					c.fail("commit-stable", "success-not-committed", "update %d reported success by node %d but no node's commit index covers it", pt.id, pt.nid)
					continue
				}
				wantPos := l.updCount[idx]
				if ur.Pos != wantPos {
					c.fail("client-semantics", "update-wrong-position", "update %d reported position %d but is update #%d of the committed log (index %d)", pt.id, ur.Pos, wantPos, idx)
				}
				if ur.Pos <= pt.floorPos {
					c.fail("client-semantics", "realtime-order", "update %d was submitted after an update at position %d had completed, yet took position %d", pt.id, pt.floorPos, ur.Pos)
				}
				if n := c.nodes[pt.nid]; n != nil && n.status == nodeUp && n.inc == pt.inc && n.sh.xferPrev && n.sh.xferNow && pt.submit == c.stepNo {
					c.fail("transfer", "accepted-during-transfer", "update %d submitted to node %d and completed successfully while a leadership transfer was in progress there", pt.id, pt.nid)
				}
				tl.succeeded[pt.id] = ur.Pos
				if ur.Pos > tl.maxPosDone {
					tl.maxPosDone = ur.Pos
				}
				c.stats.class("upd-ok")
			} else {
				switch e := err.(type) {
				case NotLeaderError:
					if e.Lost {
						tl.ambiguous[pt.id] = true
						c.stats.class("upd-lost")
					} else {
						tl.definitive[pt.id] = "NotLeaderError{Lost:false}"
						c.stats.class("upd-notleader")
					}
				case InProgressError:
					tl.definitive[pt.id] = err.Error()
					c.stats.class("upd-inprogress")
				default:
					if err == ErrServerClosed {
						tl.ambiguous[pt.id] = true
						c.stats.class("upd-closed")
					} else {
						c.fail("client-semantics", "update-unexpected-error", "update %d on node %d failed with %T %v", pt.id, pt.nid, err, err)
					}
				}
			}
		case "read", "dread":
			if err == nil {
				rr, ok := res.(fsmReadResult)
				if !ok {
					c.fail("client-semantics", "read-wrong-result", "read on node %d returned %v", pt.nid, res)
					continue
				}
				if n := c.nodes[pt.nid]; rr.Len > len(l.updIDs) && (n == nil || n.status != nodeUp || n.inc != pt.inc) {
					// answered by an incarnation that died in this very step: what it had
					// committed last was never observed
					c.stats.class("read-unverifiable")
				} else if rr.Len > len(l.updIDs) && l.contigCommit < l.maxCommit {
					// the commit ledger has a gap (entries committed and compacted between two
					// observations): the claim cannot be judged
					l.unobservedCommit++
				} else if rr.Len > len(l.updIDs) {
					c.fail("client-semantics", "read-uncommitted", "%s on node %d saw %d commands, only %d are committed", pt.kind, pt.nid, rr.Len, len(l.updIDs))
				} else if hashIDs(l.updIDs[:rr.Len]) != rr.Hash {
					c.fail("client-semantics", "read-not-prefix", "%s on node %d saw %d commands that are not the committed prefix", pt.kind, pt.nid, rr.Len)
				}
				if pt.kind == "read" {
					// reflects every update the same leader accepted before it
					for _, q := range c.tasks {
						if q.kind == "upd" && q.nid == pt.nid && q.inc == pt.inc && q.submitSeq < pt.submitSeq {
							if pos, ok := tl.succeeded[q.id]; ok && rr.Len < pos {
								c.fail("client-semantics", "read-stale", "read on node %d saw %d commands but update %d accepted before it is at position %d", pt.nid, rr.Len, q.id, pos)
							}
						}
					}
				}
				c.stats.class(pt.kind + "-ok")
			} else {
				c.stats.class(pt.kind + "-err")

			}
		case "barrier":
			if err == nil {
				for _, q := range c.tasks {
					if q.nid == pt.nid && q.inc == pt.inc && q.submitSeq < pt.submitSeq && isFSMKind(q.kind) && q.done == 0 && !taskDone(q.t) {
						c.fail("client-semantics", "barrier-early", "barrier on node %d completed before %s task submitted earlier", pt.nid, q.kind)
					}
				}
				c.stats.class("barrier-ok")
			}
		default:
			c.onAdminTaskDone(pt, err, res)
		}
	}
	// definitive failures must never take effect
	for id, why := range tl.definitive {
		if l.everSeenID[id] {
			c.fail("client-semantics", "rejected-took-effect", "update %d was rejected with %s but appears in a log", id, why)
			delete(tl.definitive, id)
		}
	}
}

func isFSMKind(k string) bool {
	return k == "upd" || k == "read" || k == "barrier" || k == "dread"
}

func (c *cluster) onAdminTaskDone(pt *pendingTask, err error, res interface{}) {
	switch pt.kind {
	case "snap":
		if err == nil {
			c.stats.class("snap-ok")
		} else {
			c.stats.class("snap-err")
		}
	case "wait":
		if err == nil {
			c.stats.class("waitstable-ok")
			if cfg, ok := res.(Config); ok && !cfg.isStable() {
				c.fail("config-safety", "waitstable-unstable", "WaitForStableConfig on node %d returned a configuration with pending actions: %v", pt.nid, cfg)
			}
		} else {
			c.stats.class("waitstable-err")
		}
	case "cfg":
		if err == nil && pt.cfgInvalid != "" {
			c.fail("config-safety", "invalid-config-accepted", "node %d accepted a membership request it has to refuse (%s): %v", pt.nid, pt.cfgInvalid, pt.cfgNew)
		}
		if err == nil {
			c.stats.class("cfg-ok")
			if n := c.nodes[pt.nid]; n != nil && n.status == nodeUp && n.inc == pt.inc && n.sh.xferPrev && n.sh.xferNow && pt.submit == c.stepNo {
				c.fail("transfer", "accepted-during-transfer", "membership change submitted to node %d and completed successfully while a leadership transfer was in progress there", pt.nid)
			}
		} else {
			c.stats.class("cfg-err")
		}
	case "xfer":
		c.onTransferDone(pt, err)
	}
}

func (c *cluster) onTransferDone(pt *pendingTask, err error) {
	if err == nil {
		c.stats.class("xfer-ok")
		n := c.nodes[pt.nid]
		if n != nil && n.status == nodeUp && n.inc == pt.inc {
			if n.r.state == Leader && n.r.term <= pt.xferTerm {
				c.fail("transfer", "xfer-success-still-leader", "transfer on node %d reported success but it is still leader of term %d", pt.nid, n.r.term)
			}
			if n.r.term <= pt.xferTerm {
				c.fail("transfer", "xfer-success-no-new-term", "transfer on node %d reported success but its term is still %d", pt.nid, n.r.term)
			}
		}
	} else {
		c.stats.class("xfer-err")
	}
}

// finalTaskCheck runs after every node has shut down.
func (c *cluster) finalTaskCheck() {
	for _, pt := range c.tasks {
		if pt.notSubmitted {
			continue
		}
		if !taskDone(pt.t) {
			c.fail("tasks-complete", "task-never-completed/"+pt.kind, "%s task submitted to node %d at step %d never completed although the node has shut down", pt.kind, pt.nid, pt.submit)
			return
		}
	}
	tl := c.tl()
	for id, why := range tl.definitive {
		if c.led.everSeenID[id] {
			c.fail("client-semantics", "rejected-took-effect", "update %d was rejected with %s but appears in a log", id, why)
		}
	}
	_ = fmt.Sprint
}
