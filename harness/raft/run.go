//go:build verif && go1.25

package raft

// Case lifecycle, evidence records, failure/replay files, test entry points.

import (
	"bufio"
	"encoding/json"
	"fmt"
	"hash/fnv"
	"io/ioutil"
	"os"
	"path/filepath"
	"runtime"
	"sort"
	"strings"
	"sync"
	"testing"
	"testing/synctest"

	"pgregory.net/rapid"
)

// ---------------------------------------------------------------- specs

type checkSpec struct {
	prop     string
	profiles []string
	deciding []string // oracle ids that decide this property
	// nontrivial classifies a finished case
	nontrivial func(c *cluster) bool
	rule       string
	setup      func(c *cluster) // extra per-case configuration (hooks etc.)
	closing    bool
	avail      bool // C17: heal only a majority at the end
}

var safetyCore = []string{"leader-unique", "leader-complete", "commit-stable", "log-matching", "leader-append-only", "fsm-agreement", "exactly-once"}

// ---------------------------------------------------------------- output

var (
	outMu     sync.Mutex
	outW      *bufio.Writer
	outF      *os.File
	curFile   *os.File
	curActs   []vAct
	samplesLeft = 3
)

func openOut() {
	if p := os.Getenv("VERIF_OUT"); p != "" {
		f, err := os.OpenFile(p, os.O_CREATE|os.O_WRONLY|os.O_APPEND, 0644)
		if err == nil {
			outF = f
			outW = bufio.NewWriter(f)
		}
	}
	if p := os.Getenv("VERIF_CUR"); p != "" {
		f, err := os.OpenFile(p, os.O_CREATE|os.O_WRONLY|os.O_TRUNC, 0644)
		if err == nil {
			curFile = f
		}
	}
}

func emit(rec map[string]interface{}) {
	outMu.Lock()
	defer outMu.Unlock()
	if outW == nil {
		return
	}
	b, _ := json.Marshal(rec)
	outW.Write(b)
	outW.WriteByte('\n')
	outW.Flush()
}

func beginCaseFile(prop string) {
	curActs = curActs[:0]
	if curFile != nil {
		curFile.Truncate(0)
		curFile.Seek(0, 0)
		fmt.Fprintf(curFile, "{\"property\":%q}\n", prop)
	}
}

func recordAction(a vAct) {
	curActs = append(curActs, a)
	if curFile != nil {
		b, _ := json.Marshal(a)
		curFile.Write(append(b, '\n'))
	}
}

func TestMain(m *testing.M) {
	installTracer()
	openOut()
	code := m.Run()
	outMu.Lock()
	if outW != nil {
		outW.Flush()
		outF.Close()
	}
	outMu.Unlock()
	os.Exit(code)
}

// ---------------------------------------------------------------- failure files

type failFile struct {
	Property string   `json:"property"`
	Oracle   string   `json:"oracle"`
	Key      string   `json:"key"`
	Msg      string   `json:"msg"`
	Step     int      `json:"step"`
	Deciding bool     `json:"deciding"`
	Actions  []vAct `json:"actions"`
	Trace    []string `json:"trace,omitempty"`
}

func sanitize(s string) string {
	var b strings.Builder
	for _, r := range s {
		if (r >= 'a' && r <= 'z') || (r >= 'A' && r <= 'Z') || (r >= '0' && r <= '9') || r == '-' {
			b.WriteRune(r)
		} else {
			b.WriteByte('_')
		}
	}
	s = b.String()
	if len(s) > 60 {
		s = s[:60]
	}
	return s
}

func writeFailFile(ff failFile) string {
	dir := os.Getenv("VERIF_FAILDIR")
	if dir == "" {
		return ""
	}
	_ = os.MkdirAll(dir, 0755)
	h := fnv.New32a()
	for _, a := range ff.Actions {
		h.Write([]byte(a.String()))
	}
	name := fmt.Sprintf("%s-%s-%04d-%08x.json", ff.Property, sanitize(ff.Key), len(ff.Actions), h.Sum32())
	p := filepath.Join(dir, name)
	b, _ := json.MarshalIndent(ff, "", " ")
	_ = ioutil.WriteFile(p, b, 0644)
	return p
}

func knownKeys() map[string]bool {
	m := map[string]bool{}
	for _, k := range strings.Split(os.Getenv("VERIF_KNOWN"), ",") {
		if k != "" {
			m[k] = true
		}
	}
	return m
}

// ---------------------------------------------------------------- case

var traceAll = os.Getenv("VERIF_TRACE_ALL") != ""

// development aid only (never set by a registered command): always run this template
var forceTpl = os.Getenv("VERIF_FORCE_TPL")

type caseResult struct {
	incidental []*failure
	trace    []string
	failure  *failure
	deciding bool
	known    bool
	nt       bool
	hash     string
	classes  map[string]int
	steps    int
	actions  []vAct
}

func contains(xs []string, x string) bool {
	for _, y := range xs {
		if x == y {
			return true
		}
	}
	return false
}

// runGenerated builds and runs one generated case inside a bubble.
func runGenerated(t *testing.T, rt *rapid.T, spec *checkSpec) (res caseResult) {
	pname := spec.profiles[rapid.IntRange(0, len(spec.profiles)-1).Draw(rt, "profile")]
	p := profiles[pname]
	seed := rapid.Int64().Draw(rt, "timerSeed")
	var pv interface{}
	defer func() {
		// synctest panics on this goroutine if the bubble's root returns while
		// other goroutines of the case are still blocked: a leak/deadlock
		if v := recover(); v != nil {
			if s := fmt.Sprint(v); strings.Contains(s, "deadlock: main bubble goroutine") {
				buf := make([]byte, 1<<20)
				buf = buf[:runtime.Stack(buf, true)]
				if res.failure != nil && res.deciding {
					// the case already established a violation of the property under
					// check; the leftover goroutines are a consequence, keep the verdict
					return
				}
				res.failure = &failure{Oracle: "shutdown", Key: "goroutines-left-blocked", Msg: "goroutines of the case remain blocked after every node was shut down: " + s}
				res.deciding = contains(spec.deciding, "shutdown")
				res.actions = append([]vAct(nil), curActs...)
				res.classes = map[string]int{}
				if dir := os.Getenv("VERIF_FAILDIR"); dir != "" {
					_ = os.MkdirAll(dir, 0755)
					_ = ioutil.WriteFile(filepath.Join(dir, fmt.Sprintf("stacks-%d.txt", len(res.actions))), buf, 0644)
				}
				return
			}
			panic(v)
		}
	}()
	synctest.Test(t, func(t *testing.T) {
		c := newCluster(seed)
		c.traceOn = traceAll
		c.setDeciding(spec)
		beginCaseFile(spec.prop)
		if spec.setup != nil {
			spec.setup(c)
		}
		c.stats.class("profile-" + pname)
		func() {
			// rapid signals invalid/exhausted data by panicking; carry that
			// out of the bubble to rapid's own goroutine
			defer func() {
				pv = recover()
				if pv != nil && !strings.HasPrefix(fmt.Sprintf("%T", pv), "rapid.") && !strings.HasPrefix(fmt.Sprintf("%T", pv), "*rapid.") {
					// a bug of the harness itself: keep the stack, rapid only sees the re-panic
					buf := make([]byte, 1<<16)
					buf = buf[:runtime.Stack(buf, false)]
					fmt.Fprintf(os.Stderr, "HARNESS-PANIC %T %v\n%s\n", pv, pv, buf)
				}
			}()
			c.generate(rt, p, spec)
		}()
		c.teardown()
		res = c.result(spec)
		if traceAll && res.failure != nil {
			res.trace = c.trace
		}
	})
	if pv != nil {
		panic(pv)
	}
	return res
}

func (c *cluster) generate(rt *rapid.T, p *profile, spec *checkSpec) {
	n := rapid.IntRange(p.minNodes, p.maxNodes).Draw(rt, "voters")
	var extras []uint64
	if p.extras > 0 {
		k := rapid.IntRange(0, p.extras).Draw(rt, "extras")
		for i := 0; i < k; i++ {
			extras = append(extras, uint64(n+1+i))
		}
	}
	// some voters of the initial configuration start empty (they learn the
	// configuration from the leader, or are bootstrapped later by a task)
	var unseeded []uint64
	if p.lateBoot > 0 && n >= 2 && !c.blackbox && rapid.IntRange(0, 99).Draw(rt, "lateBoot") < p.lateBoot {
		k := rapid.IntRange(1, n-1).Draw(rt, "unseeded")
		for i := 0; i < k; i++ {
			unseeded = append(unseeded, uint64(n-i))
		}
	}
	ini := vAct{A: "init", K: n, L: extras, U: unseeded, T: c.seed, B: rapid.IntRange(0, 4).Draw(rt, "noShutdownOnRemove") == 0}
	if p.autoSnap > 0 && rapid.IntRange(0, 99).Draw(rt, "autoSnap") < p.autoSnap {
		// the nodes take snapshots on their own timers (interval staggered 1x-2x by the library)
		ini.D = rapid.SampledFrom([]int{1500, 3000, 8000}).Draw(rt, "snapInterval")
		ini.C = rapid.SampledFrom([]int{0, 1, 5, 20}).Draw(rt, "snapThreshold")
	}
	c.step(ini)
	if len(unseeded) > 0 {
		// the operator bootstraps them while the others are already campaigning
		c.step(vAct{A: "gate"})
		for r := 0; r < 6 && !c.failed(); r++ {
			switch rapid.IntRange(0, 3).Draw(rt, "lb") {
			case 0:
				c.step(vAct{A: "adv", T: int64(rapid.SampledFrom([]int{100, 600, 1100}).Draw(rt, "lbadv"))})
			case 1:
				c.step(vAct{A: "settle", K: rapid.IntRange(1, 4).Draw(rt, "lbk")})
			default:
				c.step(vAct{A: "bootstrap", N: unseeded[rapid.IntRange(0, len(unseeded)-1).Draw(rt, "lbn")]})
			}
		}
		c.step(vAct{A: "free"})
	}
	// warm-up in free mode: elect a leader, commit some updates
	for i := 0; i < 12 && len(c.leaders()) == 0 && !c.failed(); i++ {
		c.step(vAct{A: "adv", T: 700})
	}
	if !c.failed() && p.warmUpd > 0 && len(c.leaders()) > 0 {
		k := rapid.IntRange(0, p.warmUpd).Draw(rt, "warmUpd")
		for k > 0 && !c.failed() && len(c.leaders()) > 0 {
			b := k
			if b > 10 {
				b = 10
			}
			k -= b
			c.step(vAct{A: "upd", N: c.leaders()[0], K: b, T: int64(rapid.IntRange(0, p.padMax).Draw(rt, "pad"))})
			c.step(vAct{A: "adv", T: 100})
		}
	}
	// a crash armed at a drawn hook point on a drawn node before the templates run:
	// crosses every template with every crash window (F26 was found that way)
	if len(p.tpl) > 0 && p.preArm > 0 && !c.failed() && !c.blackbox && rapid.IntRange(0, 99).Draw(rt, "preArm") < p.preArm {
		ids := c.upIDs()
		if len(ids) > 0 {
			c.step(vAct{A: "crash", N: ids[rapid.IntRange(0, len(ids)-1).Draw(rt, "preArmNode")],
				S: crashPoints[rapid.IntRange(0, len(crashPoints)-1).Draw(rt, "preArmPoint")],
				K: rapid.IntRange(1, 3).Draw(rt, "preArmK"), B: rapid.Bool().Draw(rt, "preArmFin")})
			c.stats.class("pre-armed-crash")
		}
	}
	// templates: scripted deep-state compositions, each with its own probability
	if len(p.tpl) > 0 && !c.failed() {
		names := make([]string, 0, len(p.tpl))
		for n := range p.tpl {
			names = append(names, n)
		}
		sort.Strings(names)
		for _, n := range names {
			if c.failed() {
				break
			}
			if rapid.IntRange(0, 99).Draw(rt, "tpl-"+n) < p.tpl[n] || forceTpl == n {
				if c.blackbox && n != "lagsnap" {
					continue // the others need white-box state
				}
				templates[n](c, rt)
			}
		}
	}
	if !c.failed() && rapid.IntRange(0, 99).Draw(rt, "gated") < p.gatedBias && !c.blackbox {
		c.step(vAct{A: "gate"})
	} else if !c.failed() {
		c.step(vAct{A: "free"})
	}
	steps := rapid.IntRange(p.steps[0], p.steps[1]).Draw(rt, "steps")
	for i := 0; i < steps && !c.failed(); i++ {
		c.step(c.genAction(rt, p))
	}
	if spec.avail && !c.failed() {
		c.availPhase(rt)
	} else if (p.closing || spec.closing) && !c.failed() {
		c.closingPhase()
	}
}

// closingPhase heals the network, restarts what is down and lets virtual time
// run; convergence oracles are evaluated by the caller's spec.
func (c *cluster) closingPhase() {
	c.step(vAct{A: "unholdall"})
	c.step(vAct{A: "heal"})
	c.step(vAct{A: "free"})
	for _, id := range c.downIDs() {
		if !c.nodes[id].removed {
			c.step(vAct{A: "restart", N: id})
		}
	}
	for i := 0; i < 15 && !c.failed(); i++ {
		c.step(vAct{A: "adv", T: 2000})
	}
	if ls := c.leaders(); len(ls) > 0 && !c.failed() {
		c.step(vAct{A: "probe", N: ls[len(ls)-1]})
	}
	for i := 0; i < 10 && !c.failed(); i++ {
		c.step(vAct{A: "adv", T: 1000})
	}
	if !c.failed() {
		c.step(vAct{A: "checkconv"})
	}
	c.stats.class("closing")
}

// availPhase (C17): after the fault history only a majority of the voters of the
// committed configuration (plus a drawn subset of the others) is healed and
// restarted; everybody else stays down or cut off.
func (c *cluster) availPhase(rt *rapid.T) {
	c.step(vAct{A: "unholdall"})
	c.step(vAct{A: "heal"})
	c.step(vAct{A: "free"})
	cfg := c.led.lastCommittedCfg
	if cfg == nil {
		return
	}
	var voters, others []uint64
	for _, id := range c.order {
		if c.nodes[id].removed {
			continue
		}
		if nd, ok := cfg.Nodes[id]; ok && nd.Voter {
			voters = append(voters, id)
		} else {
			others = append(others, id)
		}
	}
	need := len(voters)/2 + 1
	// drawn permutation prefix of the voters of size >= need
	k := rapid.IntRange(need, len(voters)).Draw(rt, "healthyVoters")
	perm := rapid.Permutation(voters).Draw(rt, "voterOrder")
	healthy := append([]uint64(nil), perm[:k]...)
	for _, id := range others {
		if rapid.Bool().Draw(rt, "healthyOther") {
			healthy = append(healthy, id)
		}
	}
	sort.Slice(healthy, func(i, j int) bool { return healthy[i] < healthy[j] })
	for _, id := range healthy {
		if n := c.nodes[id]; n.status == nodeDown && n.image != "" {
			c.step(vAct{A: "restart", N: id})
		}
	}
	c.step(vAct{A: "healthy", L: healthy})
	if len(healthy) < len(c.order) {
		c.stats.class("avail-minority-out")
	}
	for i := 0; i < 20 && !c.failed(); i++ {
		c.step(vAct{A: "adv", T: 2000})
	}
	if !c.failed() {
		for _, id := range c.leaders() {
			if c.healthy[id] {
				c.step(vAct{A: "probe", N: id})
				// a node id nobody has used yet joins as non-voter
				fresh := uint64(len(c.order) + 1)
				c.step(vAct{A: "cfgprobe", N: id, M: fresh})
				break
			}
		}
	}
	for i := 0; i < 10 && !c.failed(); i++ {
		c.step(vAct{A: "adv", T: 2000})
	}
	if !c.failed() {
		c.step(vAct{A: "checkconv"})
	}
	c.stats.class("closing")
}

func (c *cluster) result(spec *checkSpec) caseResult {
	res := caseResult{classes: c.stats.classes, steps: c.stats.steps, actions: append([]vAct(nil), curActs...)}
	if res.classes == nil {
		res.classes = map[string]int{}
	}
	h := fnv.New64a()
	for _, a := range curActs {
		h.Write([]byte(a.A))
		h.Write([]byte{byte(a.N), byte(a.M)})
	}
	terms := make([]uint64, 0, len(c.led.leaderOf))
	for t := range c.led.leaderOf {
		terms = append(terms, t)
	}
	sort.Slice(terms, func(i, j int) bool { return terms[i] < terms[j] })
	for _, t := range terms {
		fmt.Fprintf(h, "L%d=%d;", t, c.led.leaderOf[t])
	}
	fmt.Fprintf(h, "C%d", c.led.maxCommit)
	res.hash = fmt.Sprintf("%016x", h.Sum64())
	if spec.nontrivial != nil {
		res.nt = spec.nontrivial(c)
	}
	if f := c.failure; f != nil {
		res.failure = f
		res.deciding = contains(spec.deciding, f.Oracle)
		res.known = knownKeys()[f.Key]
	}
	keys := make([]string, 0, len(c.incidental))
	for k := range c.incidental {
		keys = append(keys, k)
	}
	sort.Strings(keys)
	for _, k := range keys {
		res.incidental = append(res.incidental, c.incidental[k])
	}
	return res
}

func (c *cluster) setDeciding(spec *checkSpec) {
	c.deciding = map[string]bool{}
	for _, o := range spec.deciding {
		c.deciding[o] = true
	}
}

func abbreviate(acts []vAct, max int) []string {
	var out []string
	for i, a := range acts {
		if i >= max {
			out = append(out, fmt.Sprintf("... %d more", len(acts)-max))
			break
		}
		out = append(out, a.String())
	}
	return out
}

// development aid: VERIF_DUMP_CASE=<number of actions>-<hash as in fail file names>
// writes the action list of that generated case (also when it does not fail)
var dumpCase = os.Getenv("VERIF_DUMP_CASE")

func report(spec *checkSpec, res caseResult) {
	if dumpCase != "" {
		h := fnv.New32a()
		for _, a := range res.actions {
			h.Write([]byte(a.String()))
		}
		if fmt.Sprintf("%04d-%08x", len(res.actions), h.Sum32()) == dumpCase {
			writeFailFile(failFile{Property: spec.prop, Oracle: "dump", Key: "dump", Msg: "dumped on request", Actions: res.actions})
		}
	}
	rec := map[string]interface{}{
		"h": res.hash, "nt": res.nt, "steps": res.steps, "cls": res.classes,
	}
	if res.nt && samplesLeft > 0 {
		samplesLeft--
		rec["sample"] = abbreviate(res.actions, 60)
	}
	if res.failure != nil {
		ff := failFile{Property: spec.prop, Oracle: res.failure.Oracle, Key: res.failure.Key, Msg: res.failure.Msg,
			Step: res.failure.Step, Deciding: res.deciding, Actions: res.actions, Trace: res.trace}
		path := writeFailFile(ff)
		rec["fail"] = map[string]interface{}{"oracle": res.failure.Oracle, "key": res.failure.Key, "msg": res.failure.Msg,
			"deciding": res.deciding, "known": res.known, "file": path, "n": len(res.actions)}
	}
	if len(res.incidental) > 0 {
		var inc []map[string]interface{}
		for _, f := range res.incidental {
			ff := failFile{Property: spec.prop, Oracle: f.Oracle, Key: f.Key, Msg: f.Msg, Deciding: false, Actions: res.actions}
			inc = append(inc, map[string]interface{}{"oracle": f.Oracle, "key": f.Key, "msg": f.Msg, "file": writeFailFile(ff)})
		}
		rec["incidental"] = inc
	}
	emit(rec)
}

// runSpec is the body of every vsim-based TestVerif_Cxx.
func runSpec(t *testing.T, spec *checkSpec) {
	rapid.Check(t, func(rt *rapid.T) {
		res := runGenerated(t, rt, spec)
		report(spec, res)
		if res.failure != nil && res.deciding && !res.known {
			rt.Fatalf("VIOLATION %s oracle=%s key=%s: %s", spec.prop, res.failure.Oracle, res.failure.Key, res.failure.Msg)
		}
	})
}

// ---------------------------------------------------------------- replay

type replayFile struct {
	Property string   `json:"property"`
	Actions  []vAct `json:"actions"`
}

func loadReplay(path string) (replayFile, error) {
	b, err := ioutil.ReadFile(path)
	if err != nil {
		return replayFile{}, err
	}
	var rf replayFile
	if err := json.Unmarshal(b, &rf); err == nil && len(rf.Actions) > 0 {
		return rf, nil
	}
	// line-oriented "current case" file written before a process death
	rf = replayFile{}
	for i, line := range strings.Split(string(b), "\n") {
		line = strings.TrimSpace(line)
		if line == "" {
			continue
		}
		if i == 0 && strings.Contains(line, "\"property\"") {
			_ = json.Unmarshal([]byte(line), &rf)
			continue
		}
		var a vAct
		if err := json.Unmarshal([]byte(line), &a); err != nil {
			break // torn last line
		}
		rf.Actions = append(rf.Actions, a)
	}
	return rf, nil
}

func replayCase(t *testing.T, spec *checkSpec, acts []vAct, trace bool) (res caseResult, tr []string) {
	defer func() {
		if v := recover(); v != nil {
			if s := fmt.Sprint(v); strings.Contains(s, "deadlock: main bubble goroutine") {
				if res.failure == nil {
					res.failure = &failure{Oracle: "shutdown", Key: "goroutines-left-blocked", Msg: s}
					res.deciding = contains(spec.deciding, "shutdown")
				}
				return
			}
			panic(v)
		}
	}()
	synctest.Test(t, func(t *testing.T) {
		c := newCluster(1)
		c.traceOn = trace
		c.strictStability = true // a recorded case: the clock-based stability oracle judges
		c.setDeciding(spec)
		beginCaseFile(spec.prop)
		if spec.setup != nil {
			spec.setup(c)
		}
		for _, a := range acts {
			if c.failed() {
				break
			}
			c.step(a)
		}
		c.teardown()
		res = c.result(spec)
		tr = c.trace
	})
	return
}

func TestVerif_Replay(t *testing.T) {
	path := os.Getenv("VERIF_REPLAY")
	if path == "" {
		t.Skip("VERIF_REPLAY not set")
	}
	rf, err := loadReplay(path)
	if err != nil {
		t.Fatal(err)
	}
	prop := rf.Property
	if p := os.Getenv("VERIF_PROP"); p != "" {
		prop = p
	}
	spec := specs[prop]
	if spec == nil {
		t.Fatalf("no spec for property %q", prop)
	}
	res, tr := replayCase(t, spec, rf.Actions, true)
	for _, l := range tr {
		fmt.Println(l)
	}
	if res.failure != nil {
		fmt.Printf("REPLAY-RESULT oracle=%s key=%s deciding=%v msg=%s\n", res.failure.Oracle, res.failure.Key, res.deciding, res.failure.Msg)
		if res.deciding {
			t.Fatalf("violation reproduced")
		}
	} else {
		fmt.Println("REPLAY-RESULT ok")
	}
}

// corpusReplay replays every saved case of a property (used at the start of a run).
func corpusReplay(t *testing.T, spec *checkSpec) {
	dir := os.Getenv("VERIF_CORPUS")
	if dir == "" {
		return
	}
	files, _ := filepath.Glob(filepath.Join(dir, "*.json"))
	sort.Strings(files)
	for _, f := range files {
		rf, err := loadReplay(f)
		if err != nil {
			continue
		}
		res, _ := replayCase(t, spec, rf.Actions, false)
		res.classes["corpus"] = 1
		report(spec, res)
		if res.failure != nil && res.deciding && !res.known {
			t.Fatalf("VIOLATION %s oracle=%s key=%s (corpus %s): %s", spec.prop, res.failure.Oracle, res.failure.Key, filepath.Base(f), res.failure.Msg)
		}
	}
}
