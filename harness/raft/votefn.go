//go:build verif && go1.25

package raft

// C05 (deciding engine): the vote handler as a function. A Raft value without
// Serve is driven to arbitrary reachable voter states with the real setters,
// then fed generated vote requests. After every call the term file on disk is
// compared with a reference model; every request is additionally executed in two
// sibling branches on a copy of the directory: crash before the rename, crash
// after the rename but before the reply.

import (
	"time"
	"net"
	"errors"
	"fmt"
	"hash/fnv"
	"os"
	"testing"

	"pgregory.net/rapid"
)

type voteModel struct {
	durable  map[uint64]uint64 // term -> non-zero candidate ever durable for that term
	maxTerm  uint64            // highest term ever reported (reply term, r.term after restart)
	diskTerm uint64
	diskVote uint64
}

func readTermFile(dir string) (uint64, uint64, error) {
	var t, v uint64
	name := termFileOf(dir)
	if _, err := fmt.Sscanf(name, "%d-%d.term", &t, &v); err != nil {
		return 0, 0, fmt.Errorf("term file %q: %v", name, err)
	}
	return t, v, nil
}

type voteFail struct{ key, msg string }

func (m *voteModel) noteDisk(dir string) *voteFail {
	t, v, err := readTermFile(dir)
	if err != nil {
		return &voteFail{"termfile-unreadable", err.Error()}
	}
	if t < m.diskTerm {
		return &voteFail{"disk-term-regress", fmt.Sprintf("term on disk went %d -> %d", m.diskTerm, t)}
	}
	if v != 0 {
		if prev, ok := m.durable[t]; ok && prev != v {
			return &voteFail{"two-votes-one-term", fmt.Sprintf("term %d: vote for %d durable after vote for %d was durable", t, v, prev)}
		}
		m.durable[t] = v
	} else if prev, ok := m.durable[t]; ok {
		return &voteFail{"vote-forgotten", fmt.Sprintf("term %d: vote for %d was durable, disk now says no vote", t, prev)}
	}
	m.diskTerm, m.diskVote = t, v
	return nil
}

func (m *voteModel) diskTermNow(dir string) uint64 {
	t, _, err := readTermFile(dir)
	if err != nil {
		return 0
	}
	return t
}

func (m *voteModel) clone() *voteModel {
	c := &voteModel{durable: map[uint64]uint64{}, maxTerm: m.maxTerm, diskTerm: m.diskTerm, diskVote: m.diskVote}
	for k, v := range m.durable {
		c.durable[k] = v
	}
	return c
}

type voter struct {
	dir string
	r   *Raft
}

func openVoter(dir string) (*voter, error) {
	opt := optForNew()
	opt.LogSegmentSize = 1024
	r, err := New(opt, &recFSM{}, dir)
	if err != nil {
		return nil, err
	}
	return &voter{dir: dir, r: r}, nil
}

func (v *voter) close() { _ = v.r.storage.log.Close() }

var errVerifCrash = errors.New("verif: injected crash")

// handle runs the real handler the way replyRPC does (through onRequest, which
// recovers storage panics into unexpectedErr).
func (v *voter) handle(q *voteReq) (rpcResult, uint64) {
	res, _ := v.r.onRequest(q, nil)
	return res, v.r.term
}

func TestVerif_C05(t *testing.T) {
	agg := newAgg()
	defer agg.flush()
	defer func() { verifHook = nil; installTracer() }()
	votePropID = "C05"
	if f := regressF25(); f != nil {
		oracle, deciding := "votefn", true
		if f.key == "bootstrap-panic" {
			oracle, deciding = "no-crash", false
		}
		ff := failFile{Property: "C05", Oracle: oracle, Key: f.key, Msg: f.msg, Deciding: deciding}
		p := writeFailFile(ff)
		emit(map[string]interface{}{"h": "x", "fail": map[string]interface{}{"oracle": oracle, "key": f.key, "msg": f.msg, "deciding": deciding, "known": knownKeys()[f.key], "file": p, "n": 2}})
		if deciding && !knownKeys()[f.key] {
			t.Fatalf("VIOLATION C05 %s: %s", f.key, f.msg)
		}
	}
	rapid.Check(t, func(rt *rapid.T) { voteProp(rt, agg) })
}

// regressF25 is the shrunk case of finding F25 as a plain check: an empty node
// grants its vote in term 2 and is bootstrapped afterwards.
func regressF25() (fail *voteFail) {
	base, err := os.MkdirTemp(shmRoot(), "verif-c05r-")
	if err != nil {
		return nil
	}
	defer os.RemoveAll(base)
	if err := SetIdentity(base, clusterID, 1); err != nil {
		return nil
	}
	v, err := openVoter(base)
	if err != nil {
		return &voteFail{"restart-failed", fmt.Sprintf("New on an empty directory: %v", err)}
	}
	defer v.close()
	res, _ := v.handle(&voteReq{req: req{term: 2, src: 2}, transfer: true})
	if res != success {
		return nil
	}
	nodes := map[uint64]Node{1: {ID: 1, Addr: addrOf(1), Voter: true}, 2: {ID: 2, Addr: addrOf(2), Voter: true}}
	t := ChangeConfig(Config{Nodes: nodes}).(changeConfig)
	var pv interface{}
	func() {
		defer func() { pv = recover() }()
		v.r.bootstrap(t)
	}()
	if pv != nil {
		return &voteFail{"bootstrap-panic", fmt.Sprintf("bootstrapping a node that had granted its vote in term 2 panics: %v", pv)}
	}
	dt, dv, err := readTermFile(base)
	if err != nil || dt != 2 || dv != 2 {
		return &voteFail{"vote-forgotten", fmt.Sprintf("after vote (2,2) and bootstrap the term file holds (%d,%d) %v", dt, dv, err)}
	}
	return nil
}

var votePropID = "C05"

// stabilityFn is the function-level part of C17 (see TestVerif_C17): the same
// generated voter states and requests, judged by the stability oracle.
func stabilityFn(t *testing.T) {
	agg := newAgg()
	defer agg.flush()
	defer func() { verifHook = nil; installTracer() }()
	votePropID = "C17"
	defer func() { votePropID = "C05" }()
	rapid.Check(t, func(rt *rapid.T) { voteProp(rt, agg) })
}

func voteFailf(rt *rapid.T, trace []string, key, format string, a ...interface{}) {
	msg := fmt.Sprintf(format, a...)
	oracle := "votefn"
	if key == "disruptive-vote-request-honoured" {
		oracle = "stability"
	}
	deciding := true
	if key == "bootstrap-panic" {
		// a process death, not a statement about votes: C15's subject
		oracle, deciding = "no-crash", false
	}
	ff := failFile{Property: votePropID, Oracle: oracle, Key: key, Msg: msg, Deciding: deciding, Trace: trace}
	p := writeFailFile(ff)
	emit(map[string]interface{}{"h": "x", "fail": map[string]interface{}{"oracle": oracle, "key": key, "msg": msg, "deciding": deciding, "known": knownKeys()[key], "file": p, "n": len(trace)}})
	if knownKeys()[key] {
		rt.Skip("known finding")
	}
	if !deciding {
		rt.Skip("incidental")
	}
	rt.Fatalf("VIOLATION %s %s: %s\n%v", votePropID, key, msg, trace)
}

func voteProp(rt *rapid.T, agg *aggStats) {
	base, err := os.MkdirTemp(shmRoot(), "verif-c05-")
	if err != nil {
		rt.Fatalf("%v", err)
	}
	defer os.RemoveAll(base)
	dir := base + "/main"
	_ = os.MkdirAll(dir, 0700)
	const self = 1
	if err := SetIdentity(dir, clusterID, self); err != nil {
		rt.Fatalf("%v", err)
	}
	nvoters := rapid.IntRange(1, 5).Draw(rt, "voters")
	nodes := map[uint64]Node{}
	for i := 1; i <= nvoters; i++ {
		nodes[uint64(i)] = Node{ID: uint64(i), Addr: addrOf(uint64(i)), Voter: true}
	}
	opt := optForNew()
	opt.LogSegmentSize = 1024
	st, err := openStorage(dir, opt)
	if err != nil {
		rt.Fatalf("%v", err)
	}
	// one case in four: the node is started empty and bootstrapped later through
	// the real task handler (a ChangeConfig task on a node without configuration),
	// possibly after it has been asked for votes by peers that were bootstrapped
	late := rapid.IntRange(0, 3).Draw(rt, "lateBootstrap") == 0
	if !late {
		if err := st.bootstrap(Config{Nodes: nodes, Index: 1, Term: 1}); err != nil {
			rt.Fatalf("%v", err)
		}
	}
	_ = st.log.Close()
	v, err := openVoter(dir)
	if err != nil {
		rt.Fatalf("%v", err)
	}
	defer func() { v.close() }()

	m := &voteModel{durable: map[uint64]uint64{}}
	var trace []string
	classes := map[string]bool{}
	if f := m.noteDisk(dir); f != nil {
		voteFailf(rt, trace, f.key, "%s", f.msg)
	}
	m.maxTerm = v.r.term

	candidates := []uint64{2, 3, 4, 5, 1 << 63, 1<<64 - 1}
	pickTerm := func(label string) uint64 {
		cur := v.r.term
		switch rapid.IntRange(0, 7).Draw(rt, label) {
		case 0:
			if cur > 0 {
				return cur - 1
			}
			return cur
		case 1, 2, 3:
			return cur
		case 4, 5:
			return cur + 1
		case 6:
			return cur + uint64(rapid.IntRange(2, 5).Draw(rt, label+"k"))
		default:
			if cur < 1<<63 {
				return 1<<63 + uint64(rapid.IntRange(0, 3).Draw(rt, label+"big"))
			}
			return cur + 1
		}
	}
	requests, sameTermDifferentCands, restarts := 0, false, 0
	reqByTerm := map[uint64]map[uint64]bool{}

	nops := rapid.IntRange(1, 25).Draw(rt, "nops")
	for i := 0; i < nops; i++ {
		op := rapid.SampledFrom([]string{"vote", "vote", "vote", "vote", "leader", "noleader", "append", "newterm", "selfvote", "restart", "state", "bootstrap"}).Draw(rt, "op")
		if !v.r.configs.IsBootstrapped() && (op == "append" || op == "selfvote" || op == "state") {
			op = "bootstrap" // an empty node neither campaigns nor holds entries
		}
		switch op {
		case "bootstrap":
			if v.r.configs.IsBootstrapped() {
				continue
			}
			t := ChangeConfig(Config{Nodes: nodes}).(changeConfig)
			var pv interface{}
			func() {
				defer func() { pv = recover() }()
				v.r.bootstrap(t)
			}()
			trace = append(trace, fmt.Sprintf("bootstrap -> err=%v panic=%v term=%d votedFor=%d", t.Err(), pv, v.r.term, v.r.votedFor))
			classes["late-bootstrap"] = true
			if m.maxTerm > 0 {
				classes["late-bootstrap-after-contact"] = true
			}
			if pv != nil {
				voteFailf(rt, trace, "bootstrap-panic", "bootstrapping a node that had already reached term %d panics: %v", m.maxTerm, pv)
			}
			if f := m.noteDisk(dir); f != nil {
				voteFailf(rt, trace, f.key, "%s", f.msg)
			}
			if v.r.term < m.maxTerm {
				voteFailf(rt, trace, "term-decreased", "term went from %d to %d through bootstrap", m.maxTerm, v.r.term)
			}
			if v.r.term != m.diskTerm || v.r.votedFor != m.diskVote {
				voteFailf(rt, trace, "memory-differs-from-disk", "after bootstrap memory has (%d,%d), disk (%d,%d)", v.r.term, v.r.votedFor, m.diskTerm, m.diskVote)
			}
			if v.r.term > m.maxTerm {
				m.maxTerm = v.r.term
			}
			v.r.state = Follower // (the handler makes it a candidate; the election itself is the selfvote op)
		case "leader":
			// hears from a leader of its current term (AppendEntries)
			l := pickU64(rt, "ldr", candidates[:4])
			v.r.leader = l
			v.r.state = Follower
			trace = append(trace, fmt.Sprintf("leader=%d", l))
		case "noleader":
			v.r.leader = 0
			trace = append(trace, "leader=0")
		case "append":
			// grow the log with an entry of the current term
			e := &entry{index: v.r.lastLogIndex + 1, term: v.r.term, typ: entryNop}
			if e.term < v.r.lastLogTerm {
				e.term = v.r.lastLogTerm
			}
			v.r.storage.appendEntry(e)
			trace = append(trace, fmt.Sprintf("append(%d,%d)", e.index, e.term))
		case "newterm":
			// learns a higher term from a leader's request
			nt := v.r.term + uint64(rapid.IntRange(1, 3).Draw(rt, "dt"))
			v.r.setTerm(nt)
			v.r.leader = pickU64(rt, "ldr", candidates[:4])
			v.r.state = Follower
			trace = append(trace, fmt.Sprintf("setTerm(%d) leader=%d", nt, v.r.leader))
			if f := m.noteDisk(dir); f != nil {
				voteFailf(rt, trace, f.key, "%s", f.msg)
			}
		case "selfvote":
			// what startElection persists before asking for votes
			v.r.leader = 0
			v.r.state = Candidate
			// the real startElection (nobody can be reached: its vote requests fail to dial)
			if v.r.configs.Latest.isVoter(self) {
				v.r.dialFn = func(network, address string, timeout time.Duration) (net.Conn, error) {
					return nil, errors.New("verif: unreachable")
				}
				cand := &candidate{Raft: v.r}
				cand.startElection()
				classes["real-startElection"] = true
			} else {
				v.r.setVotedFor(v.r.term+1, self)
			}
			if v.r.term != m.diskTermNow(dir) {
				voteFailf(rt, trace, "selfvote-not-durable", "candidate of term %d, but the term file holds term %d", v.r.term, m.diskTermNow(dir))
			}
			trace = append(trace, fmt.Sprintf("selfvote term=%d", v.r.term))
			if f := m.noteDisk(dir); f != nil {
				voteFailf(rt, trace, f.key, "%s", f.msg)
			}
		case "state":
			v.r.state = rapid.SampledFrom([]State{Follower, Candidate, Leader}).Draw(rt, "st")
			if v.r.state == Leader {
				v.r.leader = self
			}
		case "restart":
			restarts++
			v.close()
			nv, err := openVoter(dir)
			if err != nil {
				voteFailf(rt, trace, "restart-failed", "New failed after restart: %v", err)
			}
			v = nv
			trace = append(trace, fmt.Sprintf("restart -> term=%d votedFor=%d", v.r.term, v.r.votedFor))
			if v.r.term < m.maxTerm {
				voteFailf(rt, trace, "term-lost-on-restart", "restarted with term %d after reporting %d", v.r.term, m.maxTerm)
			}
			if v.r.term != m.diskTerm || v.r.votedFor != m.diskVote {
				voteFailf(rt, trace, "restart-differs-from-disk", "restarted with (%d,%d), disk had (%d,%d)", v.r.term, v.r.votedFor, m.diskTerm, m.diskVote)
			}
		case "vote":
			requests++
			q := &voteReq{req: req{term: pickTerm("term")}, transfer: rapid.IntRange(0, 3).Draw(rt, "transfer") == 0}
			switch rapid.IntRange(0, 4).Draw(rt, "who") {
			case 0:
				if v.r.leader != 0 {
					q.src = v.r.leader
				} else {
					q.src = pickU64(rt, "src", candidates)
				}
			case 1:
				if v.r.votedFor != 0 {
					q.src = v.r.votedFor
				} else {
					q.src = pickU64(rt, "src", candidates)
				}
			default:
				q.src = pickU64(rt, "src", candidates)
			}
			switch rapid.IntRange(0, 4).Draw(rt, "log") {
			case 0:
				q.lastLogIndex, q.lastLogTerm = 0, 0
			case 1:
				q.lastLogIndex, q.lastLogTerm = v.r.lastLogIndex, v.r.lastLogTerm
			case 2:
				q.lastLogIndex, q.lastLogTerm = v.r.lastLogIndex+1, v.r.lastLogTerm
			case 3:
				q.lastLogIndex, q.lastLogTerm = v.r.lastLogIndex, v.r.lastLogTerm+1
			default:
				q.lastLogIndex, q.lastLogTerm = v.r.lastLogIndex-1, v.r.lastLogTerm
			}
			if reqByTerm[q.term] == nil {
				reqByTerm[q.term] = map[uint64]bool{}
			}
			reqByTerm[q.term][q.src] = true
			if len(reqByTerm[q.term]) >= 2 {
				sameTermDifferentCands = true
			}
			cls := fmt.Sprintf("ldrKnown=%v srcIsLdr=%v transfer=%v term%s log%s", v.r.leader != 0, v.r.leader != 0 && q.src == v.r.leader, q.transfer, rel(q.term, v.r.term), logRel(q, v.r))
			classes[cls] = true
			agg.classes[cls]++

			// ---- sibling branches on copies of the directory
			for _, mode := range []string{"crash-before-persist", "crash-after-persist"} {
				bdir := fmt.Sprintf("%s/b%d-%s", base, i, mode)
				if err := copyDir(dir, bdir); err != nil {
					rt.Fatalf("copy: %v", err)
				}
				bv, err := openVoter(bdir)
				if err != nil {
					voteFailf(rt, trace, "restart-failed", "New on a copy failed: %v", err)
				}
				bv.r.leader, bv.r.state = v.r.leader, v.r.state
				bm := m.clone()
				bq := *q
				persisted := false
				if mode == "crash-before-persist" {
					grantingVote = func(s *storage, term, candidate uint64) error { return errVerifCrash }
				} else {
					verifHook = func(point, d string) {
						if point == "vote.persisted" || point == "term.persisted" {
							persisted = true
							panic("verif: crash after persist")
						}
					}
				}
				res, _ := bv.handle(&bq)
				grantingVote = func(s *storage, term, candidate uint64) error { return nil }
				verifHook = nil
				if mode == "crash-before-persist" {
					if res == success && (bq.term != bm.diskTerm || bq.src != bm.diskVote) {
						voteFailf(rt, append(trace, fmt.Sprintf("[%s] %+v -> %s", mode, bq, resultName(res))), "granted-without-persist", "replied success for (%d,%d) although the rename failed; disk has (%d,%d)", bq.term, bq.src, bm.diskTerm, bm.diskVote)
					}
					t2, v2, _ := readTermFile(bdir)
					if t2 != bm.diskTerm || v2 != bm.diskVote {
						voteFailf(rt, trace, "disk-changed-on-failed-persist", "disk went (%d,%d) -> (%d,%d) although the rename was refused", bm.diskTerm, bm.diskVote, t2, v2)
					}
				} else {
					if persisted && res == success {
						voteFailf(rt, trace, "reply-after-crash", "branch bookkeeping error")
					}
					if f := bm.noteDisk(bdir); f != nil {
						voteFailf(rt, append(trace, fmt.Sprintf("[%s] %+v", mode, bq)), f.key, "%s", f.msg)
					}
				}
				bv.close()
				// the process is gone: restart from that image
				rv, err := openVoter(bdir)
				if err != nil {
					voteFailf(rt, append(trace, fmt.Sprintf("[%s] %+v", mode, bq)), "restart-failed", "New failed after %s: %v", mode, err)
				}
				if rv.r.term < bm.maxTerm {
					voteFailf(rt, trace, "term-lost-on-restart", "after %s restarted with term %d, had reported %d", mode, rv.r.term, bm.maxTerm)
				}
				rv.close()
				_ = os.RemoveAll(bdir)
			}

			// ---- main line
			before := v.r.term
			stable := !q.transfer && v.r.leader != 0 && v.r.leader != q.src && v.r.leader != self && v.r.state == Follower
			beforeVote, beforeLeader := v.r.votedFor, v.r.leader
			res, respTerm := v.handle(q)
			if stable {
				// C17 stability: a follower that knows a leader refuses a request without
				// transfer permission from anybody else and does not move
				agg.classes["stability-judged"]++
				if res != leaderKnown || v.r.term != before || v.r.votedFor != beforeVote || v.r.leader != beforeLeader {
					voteFailf(rt, append(trace, fmt.Sprintf("vote%+v -> %s", *q, resultName(res))), "disruptive-vote-request-honoured", "follower (term %d, leader %d, votedFor %d) answered a vote request without transfer permission from %d (term %d) with %s; now term %d votedFor %d leader %d", before, beforeLeader, beforeVote, q.src, q.term, resultName(res), v.r.term, v.r.votedFor, v.r.leader)
				}
			}
			trace = append(trace, fmt.Sprintf("vote%+v -> %s term=%d", *q, resultName(res), respTerm))
			agg.classes["result-"+resultName(res)]++
			if respTerm < m.maxTerm || respTerm < before {
				voteFailf(rt, trace, "term-regress", "reply carries term %d after term %d was reported", respTerm, m.maxTerm)
			}
			m.maxTerm = respTerm
			if f := m.noteDisk(dir); f != nil {
				voteFailf(rt, trace, f.key, "%s", f.msg)
			}
			if res == success {
				if m.diskTerm != q.term || m.diskVote != q.src {
					voteFailf(rt, trace, "vote-not-durable", "replied success to candidate %d for term %d, disk has (%d,%d)", q.src, q.term, m.diskTerm, m.diskVote)
				}
			}
			if v.r.term != m.diskTerm || v.r.votedFor != m.diskVote {
				voteFailf(rt, trace, "memory-differs-from-disk", "in memory (%d,%d), on disk (%d,%d)", v.r.term, v.r.votedFor, m.diskTerm, m.diskVote)
			}
		}
	}
	agg.evals++
	if requests > 0 && (sameTermDifferentCands || restarts > 0) {
		h := fnv.New64a()
		for _, l := range trace {
			h.Write([]byte(l))
		}
		agg.nt[h.Sum64()] = true
		if len(agg.samples) < 4 {
			agg.samples = append(agg.samples, fmt.Sprint(trace))
		}
	}
}

func rel(a, b uint64) string {
	switch {
	case a < b:
		return "<"
	case a == b:
		return "="
	case a == b+1:
		return "+1"
	}
	return ">>"
}

func logRel(q *voteReq, r *Raft) string {
	if q.lastLogTerm > r.lastLogTerm || (q.lastLogTerm == r.lastLogTerm && q.lastLogIndex > r.lastLogIndex) {
		return ">"
	}
	if q.lastLogTerm == r.lastLogTerm && q.lastLogIndex == r.lastLogIndex {
		return "="
	}
	return "<"
}
