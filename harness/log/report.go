//go:build verif && go1.25

package log

// Evidence / failure-file helpers (same formats as the raft package harness).

import (
	"bufio"
	"encoding/json"
	"fmt"
	"hash/fnv"
	"io/ioutil"
	"os"
	"path/filepath"
	"sort"
	"strings"
	"sync"
	"testing"
)

var (
	outMu sync.Mutex
	outW  *bufio.Writer
	outF  *os.File
)

func TestMain(m *testing.M) {
	if p := os.Getenv("VERIF_OUT"); p != "" {
		if f, err := os.OpenFile(p, os.O_CREATE|os.O_WRONLY|os.O_APPEND, 0644); err == nil {
			outF, outW = f, bufio.NewWriter(f)
		}
	}
	code := m.Run()
	if outW != nil {
		outW.Flush()
		outF.Close()
	}
	os.Exit(code)
}

func emit(rec map[string]interface{}) {
	outMu.Lock()
	defer outMu.Unlock()
	if outW == nil {
		return
	}
	b, _ := json.Marshal(rec)
	outW.Write(b)
	outW.WriteByte('\n')
	outW.Flush()
}

type aggStats struct {
	evals   int
	nt      map[uint64]bool
	classes map[string]int
	samples []string
}

func newAgg() *aggStats { return &aggStats{nt: map[uint64]bool{}, classes: map[string]int{}} }

func (a *aggStats) flush() {
	hs := make([]uint64, 0, len(a.nt))
	for h := range a.nt {
		hs = append(hs, h)
	}
	sort.Slice(hs, func(i, j int) bool { return hs[i] < hs[j] })
	emit(map[string]interface{}{"agg": true, "evaluations": a.evals, "nt_hashes": hs, "cls": a.classes, "samples": a.samples})
}

type failFile struct {
	Property string   `json:"property"`
	Oracle   string   `json:"oracle"`
	Key      string   `json:"key"`
	Msg      string   `json:"msg"`
	Deciding bool     `json:"deciding"`
	Ops      []logOp  `json:"ops"`
	Trace    []string `json:"trace,omitempty"`
}

func sanitize(s string) string {
	var b strings.Builder
	for _, r := range s {
		if (r >= 'a' && r <= 'z') || (r >= 'A' && r <= 'Z') || (r >= '0' && r <= '9') || r == '-' {
			b.WriteRune(r)
		} else {
			b.WriteByte('_')
		}
	}
	s = b.String()
	if len(s) > 60 {
		s = s[:60]
	}
	return s
}

func knownKeys() map[string]bool {
	m := map[string]bool{}
	for _, k := range strings.Split(os.Getenv("VERIF_KNOWN"), ",") {
		if k != "" {
			m[k] = true
		}
	}
	return m
}

func writeFailFile(ff failFile) string {
	dir := os.Getenv("VERIF_FAILDIR")
	if dir == "" {
		return ""
	}
	_ = os.MkdirAll(dir, 0755)
	h := fnv.New32a()
	for _, o := range ff.Ops {
		fmt.Fprintf(h, "%v", o)
	}
	p := filepath.Join(dir, fmt.Sprintf("%s-%s-%04d-%08x.json", ff.Property, sanitize(ff.Key), len(ff.Ops), h.Sum32()))
	b, _ := json.MarshalIndent(ff, "", " ")
	_ = ioutil.WriteFile(p, b, 0644)
	return p
}

func shmRoot() string {
	if st, err := os.Stat("/dev/shm"); err == nil && st.IsDir() {
		return "/dev/shm"
	}
	return os.TempDir()
}
