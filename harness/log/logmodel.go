//go:build verif && go1.25

package log

// C13 / C14: the segmented log against a sequence model, with kill images and
// power-loss images taken at every hook point inside every operation.

import (
	"bytes"
	"encoding/binary"
	"encoding/json"
	"fmt"
	"hash/fnv"
	"io/ioutil"
	"os"
	"path/filepath"
	"sort"
	"sync"
	"testing"

	"pgregory.net/rapid"
)

type logOp struct {
	Op   string `json:"op"`
	I    uint64 `json:"i,omitempty"`
	N    uint64 `json:"n,omitempty"`
	Size int    `json:"size,omitempty"`
	Seg  int    `json:"seg,omitempty"`
	K    int    `json:"k,omitempty"`
}

func (o logOp) String() string {
	return fmt.Sprintf("%s(i=%d n=%d size=%d seg=%d k=%d)", o.Op, o.I, o.N, o.Size, o.Seg, o.K)
}

type logModel struct {
	prev    uint64
	ents    [][]byte
	durable uint64 // indexes <= durable (and > prev) survive a crash
}

func (m *logModel) last() uint64 { return m.prev + uint64(len(m.ents)) }
func (m *logModel) has(i uint64) bool { return i > m.prev && i <= m.last() }
func (m *logModel) get(i uint64) []byte { return m.ents[i-m.prev-1] }
func (m *logModel) clone() *logModel {
	return &logModel{prev: m.prev, ents: append([][]byte(nil), m.ents...), durable: m.durable}
}

type image struct {
	point string
	dir   string
	power bool
}

type logFail struct{ key, msg string }

type logCase struct {
	base    string
	dir     string
	seg     int
	l       *Log
	m       *logModel
	seq     uint64
	ops     []logOp
	crash   bool // C14 mode: take images at hook points
	images  []image
	synced  map[string][]byte // file name -> content known to be on stable storage
	pick    func(n int) int   // chooses among n alternatives (rapid draw, or fixed in replay)
	nimg    int
	classes map[string]int
	powerSegs bool
}

func newLogCase(seg int, crash bool, pick func(int) int) (*logCase, error) {
	base, err := ioutil.TempDir(shmRoot(), "verif-log-")
	if err != nil {
		return nil, err
	}
	c := &logCase{base: base, dir: filepath.Join(base, "log"), seg: seg, m: &logModel{}, crash: crash, synced: map[string][]byte{}, pick: pick, classes: map[string]int{}}
	l, err := Open(c.dir, 0700, Options{FileMode: 0600, SegmentSize: seg})
	if err != nil {
		return nil, err
	}
	c.l = l
	c.ops = append(c.ops, logOp{Op: "open", Seg: seg})
	c.noteAllSynced()
	return c, nil
}

func (c *logCase) cleanup() {
	verifHook = nil
	if c.l != nil {
		func() {
			defer func() { _ = recover() }()
			_ = c.l.Close()
		}()
	}
	_ = os.RemoveAll(c.base)
}

func (c *logCase) entryBytes(size int) []byte {
	c.seq++
	b := make([]byte, size)
	var hdr [8]byte
	binary.LittleEndian.PutUint64(hdr[:], c.seq)
	copy(b, hdr[:])
	for i := 8; i < size; i++ {
		b[i] = byte(c.seq*31 + uint64(i))
	}
	return b
}

// ---------------------------------------------------------------- images

func (c *logCase) files() []string {
	m, _ := filepath.Glob(filepath.Join(c.dir, "*"))
	sort.Strings(m)
	return m
}

func (c *logCase) noteAllSynced() {
	for _, f := range c.files() {
		if b, err := ioutil.ReadFile(f); err == nil {
			c.synced[filepath.Base(f)] = b
		}
	}
	for name := range c.synced {
		if _, err := os.Stat(filepath.Join(c.dir, name)); err != nil {
			delete(c.synced, name)
		}
	}
}

func (c *logCase) hook(point, path string) {
	if c.crash && (point == "sync.data" || point == "sync.done") {
		// power loss in the middle of the msync that just returned: any subset of
		// the pages dirtied since the previous flush may have reached the disk
		c.powerImage(point+"~during", true)
	}
	switch point {
	case "sync.data", "sync.done":
		// msync returned: the whole file content is on stable storage
		if b, err := ioutil.ReadFile(path); err == nil {
			c.synced[filepath.Base(path)] = b
		}
	case "append.newseg", "reset.opened", "removeGTE.opened":
		// createSegment fsynced the new file, mmap.OpenFile synced it again
		c.noteAllSynced()
	}
	if !c.crash {
		return
	}
	c.classes["hook-"+point]++
	// kill image
	c.nimg++
	kd := filepath.Join(c.base, fmt.Sprintf("img%d", c.nimg))
	_ = os.MkdirAll(kd, 0700)
	for _, f := range c.files() {
		if b, err := ioutil.ReadFile(f); err == nil {
			_ = ioutil.WriteFile(filepath.Join(kd, filepath.Base(f)), b, 0600)
		}
	}
	c.images = append(c.images, image{point: point, dir: kd})
	// power-loss image: per 4 KiB page either what was last flushed or what is there now
	if c.seg >= 8192 || c.pick(4) == 0 {
		c.powerImage(point, false)
	}
}

// powerImage stores an image in which every 4 KiB page that differs from the
// last flushed content is, by generated choice, either the flushed or the
// current one. With onlyTorn the image is dropped when no page was reverted.
func (c *logCase) powerImage(point string, onlyTorn bool) {
	c.nimg++
	pd := filepath.Join(c.base, fmt.Sprintf("img%d", c.nimg))
	_ = os.MkdirAll(pd, 0700)
	torn := false
	for _, f := range c.files() {
		cur, err := ioutil.ReadFile(f)
		if err != nil {
			continue
		}
		old, known := c.synced[filepath.Base(f)]
		out := append([]byte(nil), cur...)
		if known && len(old) == len(cur) {
			for off := 0; off < len(cur); off += 4096 {
				end := off + 4096
				if end > len(cur) {
					end = len(cur)
				}
				if !bytes.Equal(cur[off:end], old[off:end]) && c.pick(2) == 0 {
					copy(out[off:end], old[off:end])
					torn = true
				}
			}
		}
		_ = ioutil.WriteFile(filepath.Join(pd, filepath.Base(f)), out, 0600)
	}
	if onlyTorn && !torn {
		_ = os.RemoveAll(pd)
		return
	}
	if torn {
		c.classes["power-image-torn"]++
	}
	if onlyTorn {
		c.classes["power-image-during-msync"]++
	}
	c.images = append(c.images, image{point: point, dir: pd, power: true})
}

// checkImages validates every image taken during the last operation against the
// model before (pre) and after (c.m) that operation.
func (c *logCase) checkImages(pre *logModel, op logOp) *logFail {
	post := c.m
	defer func() {
		for _, im := range c.images {
			_ = os.RemoveAll(im.dir)
		}
		c.images = nil
	}()
	for _, im := range c.images {
		kind := "kill"
		if im.power {
			kind = "power-loss"
		}
		c.classes["image-"+kind]++
		var l *Log
		var err error
		func() {
			defer func() {
				if v := recover(); v != nil {
					err = fmt.Errorf("panic: %v", v)
				}
			}()
			l, err = Open(im.dir, 0700, Options{FileMode: 0600, SegmentSize: c.seg})
		}()
		if err != nil {
			return &logFail{"reopen-fails/" + pointClass(im.point), fmt.Sprintf("%s image at %s during %s: Open fails: %v (files %v)", kind, im.point, op, err, listDir(im.dir))}
		}
		ip, il := l.PrevIndex(), l.LastIndex()
		for i := ip + 1; i <= il; i++ {
			var b []byte
			var gerr error
			func() {
				defer func() {
					if v := recover(); v != nil {
						gerr = fmt.Errorf("panic: %v", v)
					}
				}()
				b, gerr = l.Get(i)
			}()
			if gerr != nil {
				_ = l.Close()
				return &logFail{"image-unreadable", fmt.Sprintf("%s image at %s during %s: Get(%d) fails: %v", kind, im.point, op, i, gerr)}
			}
			okPre := pre.has(i) && bytes.Equal(pre.get(i), b)
			okPost := post.has(i) && bytes.Equal(post.get(i), b)
			if !okPre && !okPost {
				what := "an entry that was never appended at that index (or a torn one)"
				lf := &logFail{"image-foreign-entry/" + kind, fmt.Sprintf("%s image at %s during %s: index %d holds %s: %d bytes %x...", kind, im.point, op, i, what, len(b), head(b))}
				_ = l.Close() // b points into the mapping: only unmap after formatting
				return lf
			}
		}
		// durability: committed before the operation and not removed by it
		for i := pre.prev + 1; i <= pre.durable && i <= pre.last(); i++ {
			if !(post.has(i) && bytes.Equal(post.get(i), pre.get(i))) {
				continue
			}
			if i <= ip || i > il {
				_ = l.Close()
				return &logFail{"image-lost-committed/" + kind, fmt.Sprintf("%s image at %s during %s: committed entry %d is missing (image has %d..%d, committed up to %d)", kind, im.point, op, i, ip+1, il, pre.durable)}
			}
		}
		_ = l.Close()
	}
	return nil
}

func pointClass(p string) string {
	for i := 0; i < len(p); i++ {
		if p[i] == '.' {
			return p[:i]
		}
	}
	return p
}

func head(b []byte) []byte {
	if len(b) > 12 {
		return b[:12]
	}
	return b
}

func listDir(d string) []string {
	var out []string
	fs, _ := ioutil.ReadDir(d)
	for _, f := range fs {
		out = append(out, fmt.Sprintf("%s:%d", f.Name(), f.Size()))
	}
	return out
}

// ---------------------------------------------------------------- operations

func catch(f func()) (p interface{}) {
	defer func() { p = recover() }()
	f()
	return nil
}

func (c *logCase) segFiles() []uint64 {
	offs, _ := segments(c.dir)
	return offs
}

func (c *logCase) checkBasics(ctx string) *logFail {
	l, m := c.l, c.m
	if l.PrevIndex() != m.prev || l.LastIndex() != m.last() || l.Count() != uint64(len(m.ents)) {
		return &logFail{"bounds", fmt.Sprintf("%s: log says prev=%d last=%d count=%d, model prev=%d last=%d count=%d", ctx, l.PrevIndex(), l.LastIndex(), l.Count(), m.prev, m.last(), len(m.ents))}
	}
	return nil
}

// do executes one operation on the log and on the model and compares.
func (c *logCase) do(op logOp) *logFail {
	c.ops = append(c.ops, op)
	c.classes["op-"+op.Op]++
	l, m := c.l, c.m
	pre := m.clone()
	if c.crash {
		verifHook = c.hook
	} else {
		verifHook = func(point, path string) { c.hook(point, path) }
	}
	var f *logFail
	switch op.Op {
	case "append":
		b := c.entryBytes(op.Size)
		wantErr := l.last.available() < len(b) && l.last.n == 0
		segsBefore := len(c.segFiles())
		err := l.Append(b)
		if wantErr {
			if err != ErrExceedsSegmentSize {
				f = &logFail{"append-error", fmt.Sprintf("Append(%d bytes) into an empty %d byte segment returned %v, want ErrExceedsSegmentSize", len(b), c.seg, err)}
			}
			c.classes["append-exceeds"]++
		} else {
			if err != nil {
				f = &logFail{"append-error", fmt.Sprintf("Append(%d bytes) failed: %v", len(b), err)}
				break
			}
			m.ents = append(m.ents, b)
			if len(c.segFiles()) > segsBefore {
				c.classes["rollover"]++
				// roll-over commits the previous segment
				if m.last()-1 > m.durable {
					m.durable = m.last() - 1
				}
			}
		}
	case "commit":
		if err := l.Commit(); err != nil {
			f = &logFail{"commit-error", err.Error()}
		}
		m.durable = m.last()
	case "commitN":
		if err := l.CommitN(op.N); err != nil {
			f = &logFail{"commit-error", err.Error()}
		}
		d := op.N
		if d > m.last() {
			d = m.last()
		}
		if d > m.durable {
			m.durable = d
		}
	case "get":
		var b []byte
		var err error
		p := catch(func() { b, err = l.Get(op.I) })
		switch {
		case op.I > m.last():
			if p == nil {
				f = &logFail{"get-beyond", fmt.Sprintf("Get(%d) beyond last index %d did not panic (returned %d bytes, %v)", op.I, m.last(), len(b), err)}
			}
		case op.I <= m.prev:
			if p != nil || err != ErrNotFound {
				f = &logFail{"get-notfound", fmt.Sprintf("Get(%d) at or below prev index %d: panic=%v err=%v, want ErrNotFound", op.I, m.prev, p, err)}
			}
		default:
			if p != nil || err != nil || !bytes.Equal(b, m.get(op.I)) {
				f = &logFail{"get-content", fmt.Sprintf("Get(%d): panic=%v err=%v, %d bytes %x, want %d bytes %x", op.I, p, err, len(b), head(b), len(m.get(op.I)), head(m.get(op.I)))}
			}
		}
	case "getN":
		var bs [][]byte
		var err error
		p := catch(func() { bs, err = l.GetN(op.I, op.N) })
		switch {
		case op.I+op.N-1 > m.last():
			if p == nil {
				f = &logFail{"get-beyond", fmt.Sprintf("GetN(%d,%d) beyond last index %d did not panic", op.I, op.N, m.last())}
			}
		case op.I <= m.prev:
			if p != nil || err != ErrNotFound {
				f = &logFail{"get-notfound", fmt.Sprintf("GetN(%d,%d) below prev %d: panic=%v err=%v", op.I, op.N, m.prev, p, err)}
			}
		default:
			var want []byte
			for i := op.I; i < op.I+op.N; i++ {
				want = append(want, m.get(i)...)
			}
			got := bytes.Join(bs, nil)
			if p != nil || err != nil || !bytes.Equal(got, want) {
				f = &logFail{"getN-content", fmt.Sprintf("GetN(%d,%d): panic=%v err=%v, got %d bytes in %d buffers, want %d bytes", op.I, op.N, p, err, len(got), len(bs), len(want))}
			}
			if len(bs) > 1 {
				c.classes["getN-multiseg"]++
			}
		}
	case "contains":
		if got := l.Contains(op.I); got != m.has(op.I) {
			f = &logFail{"contains", fmt.Sprintf("Contains(%d)=%v, model %v (prev %d last %d)", op.I, got, m.has(op.I), m.prev, m.last())}
		}
	case "removeLTE":
		can := l.CanLTE(op.I)
		if err := l.RemoveLTE(op.I); err != nil {
			f = &logFail{"removeLTE-error", err.Error()}
			break
		}
		m.durable = m.last() // implicit commit
		np := l.PrevIndex()
		if np != can {
			f = &logFail{"removeLTE-canLTE", fmt.Sprintf("CanLTE(%d) said %d, RemoveLTE(%d) left prev index %d", op.I, can, op.I, np)}
			break
		}
		lim := op.I
		if m.prev > lim {
			lim = m.prev
		}
		if np > lim || np < m.prev {
			f = &logFail{"removeLTE-beyond", fmt.Sprintf("RemoveLTE(%d) moved prev index %d -> %d", op.I, m.prev, np)}
			break
		}
		offs := c.segFiles()
		if len(offs) == 0 || offs[0] != np {
			f = &logFail{"removeLTE-boundary", fmt.Sprintf("after RemoveLTE(%d) prev index is %d but segment files are %v", op.I, np, offs)}
			break
		}
		if np > m.prev {
			c.classes["removeLTE-removed"]++
			m.ents = m.ents[np-m.prev:]
			m.prev = np
		}
	case "removeGTE":
		if err := l.RemoveGTE(op.I); err != nil {
			f = &logFail{"removeGTE-error", err.Error()}
			break
		}
		m.durable = m.last()
		switch {
		case op.I > m.last():
		case op.I > m.prev:
			m.ents = m.ents[:op.I-m.prev-1]
			c.classes["removeGTE-removed"]++
		default:
			// everything goes; the log restarts at i-1
			m.ents = nil
			if op.I > 0 {
				m.prev = op.I - 1
			} else {
				m.prev = 0
			}
			c.classes["removeGTE-all"]++
		}
		if m.durable > m.last() {
			m.durable = m.last()
		}
	case "reset":
		if err := l.Reset(op.I); err != nil {
			f = &logFail{"reset-error", err.Error()}
			break
		}
		m.prev, m.ents, m.durable = op.I, nil, op.I
	case "reopen":
		if err := l.Close(); err != nil {
			f = &logFail{"close-error", err.Error()}
			break
		}
		m.durable = m.last()
		c.seg = op.Seg
		nl, err := Open(c.dir, 0700, Options{FileMode: 0600, SegmentSize: op.Seg})
		if err != nil {
			c.l = nil
			return &logFail{"reopen-error", fmt.Sprintf("Open after Close failed: %v", err)}
		}
		c.l, l = nl, nl
		c.noteAllSynced()
		c.classes["reopen"]++
	case "view":
		// read-only view over (I, I+N]; compare everything in it
		pi, li := op.I, op.I+op.N
		var v *Log
		p := catch(func() { v = l.ViewAt(pi, li) })
		switch {
		case li > m.last():
			if p == nil {
				f = &logFail{"view-beyond", fmt.Sprintf("ViewAt(%d,%d) beyond last %d did not panic", pi, li, m.last())}
			}
		case pi < m.prev:
			if p != nil || v != nil {
				f = &logFail{"view-below", fmt.Sprintf("ViewAt(%d,%d) below prev %d: panic=%v view=%v", pi, li, m.prev, p, v != nil)}
			}
		default:
			if p != nil || v == nil {
				f = &logFail{"view-nil", fmt.Sprintf("ViewAt(%d,%d) within [%d,%d]: panic=%v nil=%v", pi, li, m.prev, m.last(), p, v == nil)}
				break
			}
			f = c.checkView(v, pi, li, m)
			c.classes["view"]++
		}
	case "readers":
		f = c.readersWhileAppending(op)
	default:
		panic("unknown op " + op.Op)
	}
	verifHook = nil
	if f == nil && c.l != nil {
		f = c.checkBasics(op.String())
	}
	if f == nil && c.crash {
		f = c.checkImages(pre, op)
	} else {
		for _, im := range c.images {
			_ = os.RemoveAll(im.dir)
		}
		c.images = nil
	}
	return f
}

func (c *logCase) checkView(v *Log, pi, li uint64, m *logModel) *logFail {
	if v.PrevIndex() != pi || v.LastIndex() != li {
		return &logFail{"view-bounds", fmt.Sprintf("view(%d,%d) reports prev=%d last=%d", pi, li, v.PrevIndex(), v.LastIndex())}
	}
	for i := pi + 1; i <= li; i++ {
		b, err := v.Get(i)
		if err != nil || !bytes.Equal(b, m.get(i)) {
			return &logFail{"view-content", fmt.Sprintf("view(%d,%d).Get(%d): err=%v %d bytes, want %d bytes", pi, li, i, err, len(b), len(m.get(i)))}
		}
	}
	if li > pi {
		bs, err := v.GetN(pi+1, li-pi)
		var want []byte
		for i := pi + 1; i <= li; i++ {
			want = append(want, m.get(i)...)
		}
		if err != nil || !bytes.Equal(bytes.Join(bs, nil), want) {
			return &logFail{"view-content", fmt.Sprintf("view(%d,%d).GetN whole range: err=%v", pi, li, err)}
		}
	}
	if _, err := v.Get(pi); pi > 0 && err != ErrNotFound {
		return &logFail{"view-notfound", fmt.Sprintf("view(%d,%d).Get(%d) = %v, want ErrNotFound", pi, li, pi, err)}
	}
	return nil
}

// readersWhileAppending: K reader goroutines keep re-reading views taken now
// while this goroutine appends N entries (the documented concurrent use).
func (c *logCase) readersWhileAppending(op logOp) *logFail {
	l, m := c.l, c.m
	if len(m.ents) == 0 {
		return nil
	}
	type rd struct {
		v      *Log
		pi, li uint64
		want   [][]byte
	}
	var rds []rd
	for k := 0; k < op.K; k++ {
		span := uint64(len(m.ents))
		pi := m.prev + uint64(c.pick(int(span)))
		li := pi + 1 + uint64(c.pick(int(m.last()-pi)))
		if li > m.last() {
			li = m.last()
		}
		v := l.ViewAt(pi, li)
		if v == nil {
			return &logFail{"view-nil", fmt.Sprintf("ViewAt(%d,%d) within [%d,%d] is nil", pi, li, m.prev, m.last())}
		}
		var want [][]byte
		for i := pi + 1; i <= li; i++ {
			want = append(want, m.get(i))
		}
		rds = append(rds, rd{v, pi, li, want})
	}
	var wg sync.WaitGroup
	errs := make(chan string, len(rds))
	stop := make(chan struct{})
	for _, r := range rds {
		wg.Add(1)
		go func(r rd) {
			defer wg.Done()
			defer func() {
				if v := recover(); v != nil {
					errs <- fmt.Sprintf("reader of view(%d,%d) panicked: %v", r.pi, r.li, v)
				}
			}()
			for round := 0; ; round++ {
				for i := r.pi + 1; i <= r.li; i++ {
					b, err := r.v.Get(i)
					if err != nil || !bytes.Equal(b, r.want[i-r.pi-1]) {
						errs <- fmt.Sprintf("view(%d,%d).Get(%d) changed while the writer appended: err=%v", r.pi, r.li, i, err)
						return
					}
				}
				if r.li > r.pi {
					bs, err := r.v.GetN(r.pi+1, r.li-r.pi)
					if err != nil || !bytes.Equal(bytes.Join(bs, nil), bytes.Join(r.want, nil)) {
						errs <- fmt.Sprintf("view(%d,%d).GetN changed while the writer appended: err=%v", r.pi, r.li, err)
						return
					}
				}
				select {
				case <-stop:
					if round >= 2 {
						return
					}
				default:
				}
			}
		}(r)
	}
	var f *logFail
	for i := uint64(0); i < op.N; i++ {
		b := c.entryBytes(op.Size)
		if l.last.available() < len(b) && l.last.n == 0 {
			break
		}
		segs := len(c.segFiles())
		if err := l.Append(b); err != nil {
			f = &logFail{"append-error", err.Error()}
			break
		}
		m.ents = append(m.ents, b)
		if len(c.segFiles()) > segs && m.last()-1 > m.durable {
			m.durable = m.last() - 1
		}
	}
	close(stop)
	wg.Wait()
	close(errs)
	for e := range errs {
		if f == nil {
			f = &logFail{"view-concurrent", e}
		}
	}
	c.classes["readers"]++
	return f
}

// ---------------------------------------------------------------- generation

var segSizes = []int{1024, 1024, 1024, 2048, 4096, 8192, 16384}

func (c *logCase) genOp(rt *rapid.T) logOp {
	m := c.m
	kinds := []string{"append", "append", "append", "append", "append", "commit", "commitN", "get", "getN", "contains", "removeLTE", "removeGTE", "reset", "reopen", "view", "readers"}
	if c.crash {
		kinds = []string{"append", "append", "append", "append", "append", "append", "commit", "commit", "commitN", "removeLTE", "removeLTE", "removeGTE", "removeGTE", "reset", "reopen", "get"}
	}
	k := rapid.SampledFrom(kinds).Draw(rt, "op")
	around := func(label string) uint64 {
		// an index relative to every boundary
		cands := []uint64{0, 1, m.prev, m.prev + 1, m.last(), m.last() + 1, m.last() + 2}
		if m.prev > 0 {
			cands = append(cands, m.prev-1)
		}
		for _, off := range c.segFiles() {
			cands = append(cands, off, off+1)
			if off > 0 {
				cands = append(cands, off-1)
			}
		}
		if len(m.ents) > 0 && rapid.Bool().Draw(rt, label+"inside") {
			return m.prev + 1 + uint64(rapid.IntRange(0, len(m.ents)-1).Draw(rt, label+"off"))
		}
		return cands[rapid.IntRange(0, len(cands)-1).Draw(rt, label)]
	}
	switch k {
	case "append":
		sizes := []int{0, 1, 8, 9, 16, 40, 100, 200, c.seg - 24 - 1, c.seg - 24, c.seg - 24 + 1, c.seg - 32, c.seg/2 - 16, 3 * c.seg}
		sz := sizes[rapid.IntRange(0, len(sizes)-1).Draw(rt, "szclass")]
		if rapid.IntRange(0, 3).Draw(rt, "smallbias") > 0 {
			sz = rapid.IntRange(0, 120).Draw(rt, "small")
		}
		if sz < 0 {
			sz = 0
		}
		return logOp{Op: "append", Size: sz}
	case "commit":
		return logOp{Op: "commit"}
	case "commitN":
		return logOp{Op: "commitN", N: around("n")}
	case "get":
		return logOp{Op: "get", I: around("i")}
	case "getN":
		i := around("i")
		n := uint64(rapid.IntRange(1, 40).Draw(rt, "n"))
		if rapid.Bool().Draw(rt, "toend") && m.last() >= i {
			n = m.last() - i + 1
		}
		if n == 0 {
			n = 1
		}
		return logOp{Op: "getN", I: i, N: n}
	case "contains":
		return logOp{Op: "contains", I: around("i")}
	case "removeLTE":
		return logOp{Op: "removeLTE", I: around("i")}
	case "removeGTE":
		i := around("i")
		if i <= m.prev && rapid.IntRange(0, 3).Draw(rt, "avoidall") > 0 && len(m.ents) > 0 {
			i = m.prev + 1 + uint64(rapid.IntRange(0, len(m.ents)-1).Draw(rt, "gteoff"))
		}
		return logOp{Op: "removeGTE", I: i}
	case "reset":
		return logOp{Op: "reset", I: around("i")}
	case "reopen":
		seg := c.seg
		if rapid.IntRange(0, 2).Draw(rt, "otherseg") == 0 {
			seg = segSizes[rapid.IntRange(0, len(segSizes)-1).Draw(rt, "seg")]
		}
		return logOp{Op: "reopen", Seg: seg}
	case "view":
		pi := around("p")
		n := uint64(rapid.IntRange(0, 30).Draw(rt, "n"))
		if rapid.Bool().Draw(rt, "toend") && m.last() >= pi {
			n = m.last() - pi
		}
		return logOp{Op: "view", I: pi, N: n}
	case "readers":
		return logOp{Op: "readers", K: rapid.IntRange(1, 4).Draw(rt, "k"), N: uint64(rapid.IntRange(1, 60).Draw(rt, "n")), Size: rapid.IntRange(0, 150).Draw(rt, "size")}
	}
	return logOp{Op: "commit"}
}

func logProp(rt *rapid.T, agg *aggStats, prop string, crash bool) {
	seg := segSizes[rapid.IntRange(0, len(segSizes)-1).Draw(rt, "seg")]
	c, err := newLogCase(seg, crash, func(n int) int {
		if n <= 1 {
			return 0
		}
		return rapid.IntRange(0, n-1).Draw(rt, "pick")
	})
	if err != nil {
		rt.Fatalf("setup: %v", err)
	}
	defer c.cleanup()
	// fill phase so that most cases span several segments
	fill := rapid.IntRange(0, 80).Draw(rt, "fill")
	fsize := rapid.IntRange(0, 160).Draw(rt, "fillsize")
	var fail *logFail
	for i := 0; i < fill && fail == nil; i++ {
		fail = c.do(logOp{Op: "append", Size: fsize})
	}
	n := rapid.IntRange(1, 40).Draw(rt, "nops")
	for i := 0; i < n && fail == nil; i++ {
		fail = c.do(c.genOp(rt))
	}
	agg.evals++
	for k, v := range c.classes {
		agg.classes[k] += v
	}
	nsegs := len(c.segFiles())
	nt := false
	if !crash {
		nt = (nsegs >= 2 || c.classes["rollover"] > 0) && (c.classes["removeLTE-removed"] > 0 || c.classes["removeGTE-removed"] > 0 || c.classes["reopen"] > 0)
	} else {
		inside := 0
		for k, v := range c.classes {
			if len(k) > 5 && k[:5] == "hook-" {
				inside += v
			}
		}
		nt = inside > 0
	}
	if nt {
		h := fnv.New64a()
		for _, o := range c.ops {
			fmt.Fprintf(h, "%v;", o)
		}
		fmt.Fprintf(h, "seg%d", seg)
		agg.nt[h.Sum64()] = true
		if len(agg.samples) < 4 {
			var s []string
			for i, o := range c.ops {
				if i >= fill && len(s) < 30 {
					s = append(s, o.String())
				}
			}
			agg.samples = append(agg.samples, fmt.Sprintf("seg=%d fill=%dx%dB then %v", seg, fill, fsize, s))
		}
	}
	if fail != nil {
		ff := failFile{Property: prop, Oracle: "logmodel", Key: fail.key, Msg: fail.msg, Deciding: true, Ops: c.ops}
		p := writeFailFile(ff)
		known := knownKeys()[fail.key]
		emit(map[string]interface{}{"h": "x", "fail": map[string]interface{}{"oracle": "logmodel", "key": fail.key, "msg": fail.msg, "deciding": true, "known": known, "file": p, "n": len(c.ops)}})
		if known {
			return
		}
		rt.Fatalf("VIOLATION %s %s: %s", prop, fail.key, fail.msg)
	}
}

// corpusReplayLog re-runs saved operation lists (shrunk failures of repaired defects).
func corpusReplayLog(t *testing.T, prop string, crash bool) {
	dir := os.Getenv("VERIF_CORPUS")
	if dir == "" {
		return
	}
	files, _ := filepath.Glob(filepath.Join(dir, "*.json"))
	sort.Strings(files)
	for _, f := range files {
		b, err := ioutil.ReadFile(f)
		if err != nil {
			continue
		}
		var ff failFile
		if json.Unmarshal(b, &ff) != nil || len(ff.Ops) == 0 {
			continue
		}
		for choice := 0; choice < 2; choice++ {
			seg, ops := 1024, ff.Ops
			if ops[0].Op == "open" {
				seg, ops = ops[0].Seg, ops[1:]
			}
			c, err := newLogCase(seg, crash, func(n int) int { return choice % n })
			if err != nil {
				t.Fatal(err)
			}
			var fail *logFail
			for _, o := range ops {
				if fail = c.do(o); fail != nil {
					break
				}
			}
			c.cleanup()
			if fail != nil {
				nf := failFile{Property: prop, Oracle: "logmodel", Key: fail.key, Msg: fail.msg, Deciding: true, Ops: ff.Ops}
				p := writeFailFile(nf)
				emit(map[string]interface{}{"h": "x", "fail": map[string]interface{}{"oracle": "logmodel", "key": fail.key, "msg": fail.msg, "deciding": true, "known": knownKeys()[fail.key], "file": p, "n": len(ff.Ops)}})
				if !knownKeys()[fail.key] {
					t.Fatalf("VIOLATION %s %s (corpus %s): %s", prop, fail.key, filepath.Base(f), fail.msg)
				}
			}
		}
	}
}

func TestVerif_C13(t *testing.T) {
	corpusReplayLog(t, "C13", false)
	agg := newAgg()
	defer agg.flush()
	rapid.Check(t, func(rt *rapid.T) { logProp(rt, agg, "C13", false) })
}

func TestVerif_C14(t *testing.T) {
	corpusReplayLog(t, "C14", true)
	agg := newAgg()
	defer agg.flush()
	rapid.Check(t, func(rt *rapid.T) { logProp(rt, agg, "C14", true) })
}

// TestVerif_LogReplay re-runs a recorded operation list without rapid.
func TestVerif_LogReplay(t *testing.T) {
	path := os.Getenv("VERIF_REPLAY")
	if path == "" {
		t.Skip("VERIF_REPLAY not set")
	}
	b, err := ioutil.ReadFile(path)
	if err != nil {
		t.Fatal(err)
	}
	var ff failFile
	if err := json.Unmarshal(b, &ff); err != nil {
		t.Fatal(err)
	}
	crash := ff.Property == "C14"
	// alternatives inside hooks are not recorded: try each fixed choice
	for choice := 0; choice < 4; choice++ {
		seg := 1024
		ops := ff.Ops
		if len(ops) > 0 && ops[0].Op == "open" {
			seg, ops = ops[0].Seg, ops[1:]
		}
		c, err := newLogCase(seg, crash, func(n int) int { return choice % n })
		if err != nil {
			t.Fatal(err)
		}
		var fail *logFail
		for _, o := range ops {
			if fail = c.do(o); fail != nil {
				break
			}
		}
		c.cleanup()
		if fail != nil {
			fmt.Printf("REPLAY-RESULT key=%s msg=%s\n", fail.key, fail.msg)
			t.Fatalf("violation reproduced")
		}
	}
	fmt.Println("REPLAY-RESULT ok")
}
