#!/usr/bin/env python3
"""evalmut.py <seeded-id> [props...]: apply /verif/seeded/<id>/patch.diff to a scratch worktree of /repo
(HEAD), run the checks against it (VERIF_REPO / VERIF_BUILD), remove the worktree.
Writes /verif/seeded/<id>/detect.json. /repo itself is not touched."""
import json, os, shutil, subprocess, sys, time
sid = sys.argv[1]
d = os.path.join(os.environ.get("MUTDIR", "/verif/seeded"), sid)
props = sys.argv[2:] or ["C%02d" % i for i in range(1, 21)]
wt = "/tmp/mutrepo-" + sid
bd = "/tmp/mutbuild-" + sid
subprocess.run(["git", "-C", "/repo", "worktree", "remove", "--force", wt], capture_output=True)
r = subprocess.run(["git", "-C", "/repo", "worktree", "add", "-q", "--detach", wt, "HEAD"], capture_output=True, text=True)
if r.returncode != 0:
    print("worktree:", r.stderr); sys.exit(2)
res = {}
try:
    r = subprocess.run(["git", "-C", wt, "apply", os.path.join(d, "patch.diff")], capture_output=True, text=True)
    if r.returncode != 0:
        print("patch does not apply:", r.stderr); sys.exit(2)
    for p in props:
        t0 = time.time()
        env = dict(os.environ); env["VERIF_SEED"] = os.environ.get("VERIF_SEED", "1")
        env["VERIF_REPO"] = wt; env["VERIF_BUILD"] = bd
        out = subprocess.run(["/verif/check", p, "--tier", os.environ.get("TIER", "quick")], capture_output=True, text=True, cwd="/verif", env=env)
        lines = [l for l in out.stdout.splitlines() if l.startswith(("VIOLATION", "  key=", "INCIDENTAL", "INCONCLUSIVE", "KNOWN"))]
        res[p] = {"rc": out.returncode, "s": round(time.time() - t0, 1), "lines": [l[:400] for l in lines[:8]]}
        print(p, out.returncode, "%.0fs" % (time.time() - t0), (lines[0][:200] if lines else ""))
        sys.stdout.flush()
        if out.returncode == 1:
            # keep the smallest replay of the first detection
            for l in lines:
                if l.startswith("VIOLATION") and "replay=" in l:
                    src = l.split("replay=")[1].strip()
                    if os.path.exists(src) and not os.path.exists(os.path.join(d, "replay-%s.json" % p)):
                        shutil.copyfile(src, os.path.join(d, "replay-%s.json" % p))
                    break
finally:
    subprocess.run(["git", "-C", "/repo", "worktree", "remove", "--force", wt], capture_output=True)
    shutil.rmtree(bd, ignore_errors=True)
old = {}
p_ = os.path.join(d, "detect.json")
if os.path.exists(p_):
    old = json.load(open(p_))
old.update(res)
json.dump(old, open(p_, "w"), indent=1)
print("DETECTED by:", [p for p, v in old.items() if v["rc"] == 1], " inconclusive(2):", [p for p, v in old.items() if v["rc"] == 2])
