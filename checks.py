"""Per-property check configuration used by ./check."""

VSIM_ASSUME = [
    "network is TCP-like: per-connection FIFO byte streams, arbitrary delay, connection loss, refused dials; no in-connection reordering/duplication (the code pairs responses by FIFO order)",
    "crash = process kill: directory image copied at the crash instant, unflushed mmap log tail visible only up to the flushed header count; stale lock file removed (documented operator step)",
    "timers may fire early (poke) and virtual time may advance arbitrarily; goroutine interleaving inside one node's reaction to one stimulus is the Go scheduler's",
    "FSM and storage do not fail; API used as documented",
]

def vsim(test, deciding, rule, quick_checks, thorough_checks, level="exploration", extra_assume=(), shards=None, timeout_q=600, timeout_t=3000, race=False, **kw):
    d = {
        "pkg": "raft", "test": test, "deciding": deciding, "rule": rule, "level": level,
        "assumptions": VSIM_ASSUME + list(extra_assume),
        "quick": {"checks": quick_checks, "timeout": timeout_q, "shrinktime": "15s"},
        "thorough": {"checks": thorough_checks, "timeout": timeout_t, "shrinktime": "60s"},
    }
    if race:
        for tier in ("quick", "thorough"):
            d[tier]["variants"] = [{"race": False, "share": 0.7}, {"race": True, "share": 0.3, "scale": 0.15}]
        d["assumptions"] = d["assumptions"] + ["race tier: the same generated schedules run under the Go race detector in black-box mode (public API, tracer callbacks, wire monitor only); only interleavings the Go scheduler produces are seen"]
    if shards:
        d["quick"]["shards"] = shards
        d["thorough"]["shards"] = shards
    d.update(kw)
    return d

def warn_classes(required):
    def f(ev):
        out = []
        n = max(1, ev["evaluations"])
        for cls, minfrac in required.items():
            frac = ev["classes"].get(cls, 0) / n
            if frac < minfrac:
                out.append("class %s in %.2f%% of cases (< %.2f%%)" % (cls, 100 * frac, 100 * minfrac))
        return out
    return f

CHECKS = {
    "C01": vsim("TestVerif_C01", ["leader-unique"],
        "cases = rapid-generated schedules (init 2-5 voters, warm-up, 10-50 actions: timer pokes, selective delivery, elections, severs, isolation, crash/restart, membership/transfer actions) on real nodes in a synctest bubble; non-trivial: >=2 elections started and (>=2 leaders elected or a fault happened); distinct by hash of action kinds+nodes, leader-per-term ledger and max commit index",
        2000, 20000, warn=warn_classes({"leader-elected": 0.5, "fault": 0.3})),
    "C02": vsim("TestVerif_C02", ["leader-complete", "commit-stable"],
        "cases = generated schedules (profiles repl/member/snap); non-trivial: >=1 entry committed beyond bootstrap and >=2 leaders elected; distinct by trace hash",
        2000, 20000),
    "C03": vsim("TestVerif_C03", ["fsm-agreement", "exactly-once"],
        "cases = generated schedules (profiles repl/snap/client, incl. templates lagsnap/divergesnap/staleinstall) with recording FSMs; non-trivial: >=5 updates committed and (leader change or FSM restore); distinct by trace hash. A process crash whose stack is inside the FSM apply path (stateMachine.*) also decides this property: it means the state machine was handed a gap",
        2000, 20000, crash_deciding_re=r"stateMachine\."),
    "C04": vsim("TestVerif_C04", ["log-matching", "leader-append-only"],
        "cases = generated schedules (profiles repl/elect); non-trivial: some node truncated >=1 entry, or >=2 leaders with >=3 entries committed; distinct by trace hash",
        2000, 20000),
    "C06": vsim("TestVerif_C06", ["durable-majority", "ack-durable"],
        "cases = generated schedules over configurations reached by membership changes (1..n voters, non-voters, leader demoting/removing itself) with selective delivery of acknowledgements. Oracle = durability census at EVERY instant a leader raises its commit index (hook inside Raft.setCommitIndex, on the leader's own goroutine): for every voter of the leader's latest configuration the node's directory (live one, or the crash image if it is down) is read the way a reopen would (flushed segment header counts only) and must hold the entry with the same term, or a snapshot covering it; required >= floor(v/2)+1 voters, non-voters never counted, the leader only if it is a voter. Plus wire oracle: a follower that writes a success append/install response already has every entry of that request flushed. non-trivial: a census happened while the configuration entry was uncommitted/just committed or non-voters were present; distinct by trace hash",
        2000, 20000, level="fault_enumeration"),
    "C07": vsim("TestVerif_C07", ["client-semantics", "exactly-once"],
        "cases = generated client histories (UpdateFSM/ReadFSM/DirtyReadFSM/BarrierFSM to arbitrary nodes, bursts, FIFO per node) under leader changes, partitions, transfers, membership changes, restarts; non-trivial: >=1 task failed definitively or ambiguously, >=2 leaders elected, >=3 successful updates; distinct by trace hash",
        2000, 20000),
    "C08": vsim("TestVerif_C08", ["config-safety", "info-config", "leader-unique", "leader-complete", "commit-stable"],
        "cases = generated membership request sequences (add non-voter +-promote, promote, demote, remove, force-remove, several per request, stale configs) interleaved with elections, transfers, faults, incl. template cfgrevert; the configuration a node has adopted (its status report) must be the newest configuration entry of its own log/snapshot at every observation (adoption on append, revert on truncation, rebuild on restart); non-trivial: >=2 configuration entries appended by leaders and >=2 leaders elected; distinct by trace hash",
        2000, 20000),
    "C09": vsim("TestVerif_C09", ["fsm-agreement", "snapshot-content", "restart", "converge", "no-crash", "log-read"],
        "cases = generated schedules with long logs over 1 KiB segments: snapshots on leaders and followers (also with the snapshot goroutine or a replication goroutine parked at a hook), compaction, followers lagging/partitioned/restarting, installs, followed by a closing phase (release holds, heal, restart every node, 40 s virtual time, probe update, 10 s). Oracles: recording-FSM content == committed update prefix at its applied index after every step (also right after Restore); every snapshot file's content == committed prefix at its index and index <= highest commit index; every restart succeeds; convergence (one leader, own-term commit, every running member caught up); no crash/fault in any node. non-trivial: a compaction happened or a snapshot was installed, and the closing phase ran; distinct by trace hash",
        1500, 15000),
    "C10": vsim("TestVerif_C10", ["restart", "serve", "restart-consistent", "term-monotonic", "vote-durable", "converge", "leader-unique", "leader-complete", "commit-stable", "log-matching", "fsm-agreement", "no-crash"],
        "cases = generated schedules with crash(node, now | at hook point P on its k-th hit) where P ranges over term.persisted, vote.persisted, append.appended/truncated/flushed, commit.advance, snap.fsmdone/premeta/postmeta/retained, install.stored/cleared, snaptaken.precompact, ldr.precompact; the crashing goroutine takes the directory image at that instruction and is parked; restart = New+Serve on a copy of the image. Oracles: restart succeeds; term >= any term reported; granted vote still there; last index >= highest index acknowledged with success / committed as leader (lowered on observed truncation); PrevIndex <= snapshot index <= last index; then closing phase convergence with the C01-C04 oracles on. non-trivial: a node was killed at a hook point and restarted from that image; distinct by trace hash",
        1500, 15000, level="fault_enumeration"),
    "C12": vsim("TestVerif_C12", ["snapshot-label", "info-config"],
        "cases = generated snapshot+membership schedules; TakeSnapshot with the snapshot goroutine parked at its first instruction while further entries incl. configuration entries commit, then released; restarts and installs. Oracle on EVERY meta file published on any disk (hook right after the rename): index/term equal the committed entry, size equals the data file, configuration == newest committed configuration entry with index <= snapshot index; status reports' Latest == newest configuration in log or snapshot label. non-trivial: a snapshot was stored whose configuration in force is not the bootstrap one; distinct by trace hash",
        2000, 20000),
    "C11": vsim("TestVerif_C11", ["nonvoter-authority", "durable-majority"],
        "cases = generated membership/transfer schedules (incl. template staletimeoutnow: a timeout-now request withheld until its target has been demoted/removed); non-trivial: a non-voter/non-member had its election timer fire or was sent timeout-now, or a promotion was appended; distinct by trace hash. A process crash inside candidate.startElection also decides this property: its first statement asserts that the campaigning node is a voter",
        2000, 20000, crash_deciding_re=r"candidate\.(startElection|init)"),
    "C15": vsim("TestVerif_C15", ["no-crash", "serve", "shutdown", "tasks-complete", "log-read"],
        "cases = generated chaos schedules (client + admin tasks, snapshots, compaction, transfers, membership changes, partitions, crash/stop/restart, many 1 KiB segments) ending with heal, restart, 60 s of virtual time and shutdown of every node; non-trivial: >=3 of {snapshot, compaction, install, transfer, membership change, partition, restart}; distinct by trace hash",
        1500, 15000, race=True),
    "C16": vsim("TestVerif_C16", ["transfer", "leader-unique", "converge", "tasks-complete"],
        "cases = generated transfer schedules (target given/any/invalid, gated delivery of timeout-now, its reply and the vote traffic, concurrent updates and membership actions); non-trivial: a timeout-now request was written and the transfer task completed; every submitted task (the transfer requests in particular) has completed when its node has shut down; distinct by trace hash",
        2000, 20000),
    "C17": vsim("TestVerif_C17", ["converge", "stability"],
        "cases = generated fault histories from every profile (partitions, crashes at hook points, restarts, lagging followers, compaction leaving followers behind, removed nodes that keep running), then an availability phase: holds released, a drawn superset of a majority of the committed configuration's voters is restarted and keeps exchanging messages, everybody else is cut off or stays down, virtual time runs 40 s (20-40 election timeouts), a probe update is submitted, 20 s more. Oracle (bounded liveness): exactly one leader inside the healthy set, it committed an entry of its own term, the probe completed, every healthy member has the leader's last index and applied index. Stability oracle, two parts: (a) in time-frozen delivery steps of gated schedules a follower that believed in leader L before the step and still does answers a vote request without transfer permission from another node with leaderKnown; (b) function-level: for generated voter states (the votefn generator of C05) every request without transfer permission to a follower that knows a leader other than the sender is answered leaderKnown and leaves term, vote, leader and the term file unchanged. non-trivial: >=2 faults and the availability phase ran, or the stability oracle judged a request; distinct by trace hash",
        1500, 15000, extra_assume=["bounded liveness over sampled histories: 'eventually' is not decided; the bound is 60 virtual seconds = 30-60 election timeouts"]),
    "C19": vsim("TestVerif_C19", ["info-order", "info-monotonic", "info-config"],
        "cases = generated per-node request sequences with a GetInfo task handed to every idle node after every step; non-trivial: a node answering >=2 reports processed a snapshot installation, truncation or configuration revert; distinct by trace hash",
        2000, 20000),
    "C18": {
        "pkg": "raft", "test": "TestVerif_C18", "deciding": ["codec"], "level": "exploration",
        "rule": "cases = rapid-generated values of every wire/disk type (entry, 5 requests, 5 responses with every result incl. unexpectedErr +-OpError, Node, Config 0..6 nodes, snapshotMeta, Replication, Info, task responses of every error kind/result type) with integers from {0,1,2^31+-1,2^32+-1,2^63-1,2^63,2^64-1,random} and byte strings 0..70 KiB, followed by arbitrary trailing bytes; plus append-request streams decoded through bufio in drawn chunk sizes; plus SetIdentity/setVotedFor->reopen for 64-bit values. Oracle: decoded value equals generated value (nil==empty map, times by Equal, errors by message/kind as the property states), decoder consumed exactly the encoding, every proper prefix (all for encodings <=256 bytes, 40 drawn + 64 at each end otherwise) yields an error and no panic. non-trivial: value has a field >= 2^63, an empty or > 4 KiB byte string, an error payload, or >= 3 nodes; distinct by hash of the encoding",
        "assumptions": ["hostile length prefixes are not generated: the property speaks of truncations of valid encodings (readBytes allocates what a length prefix says, by design)",
                        "semantic equality as stated in the property: nil and empty maps equal, Replication.Err compared by message, InProgressError recognised by kind"],
        "quick": {"checks": 2500, "timeout": 300, "shrinktime": "10s", "gomaxprocs": 1},
        "thorough": {"checks": 40000, "timeout": 2400, "shrinktime": "30s", "gomaxprocs": 1},
    },
    "C05": {
        "pkg": "raft", "test": "TestVerif_C05", "deciding": ["votefn", "stability"], "level": "fault_enumeration",
        "rule": "cases = rapid-generated sequences (1..25 ops) on a real Raft value without Serve: vote requests (term in {cur-1,cur,cur+1,cur+k,>=2^63}, candidate in {known leader, previous vote, others, ids>=2^63}, log position around the voter's, transfer flag), hearing from a leader, term bumps, log growth, self-vote (what startElection persists), restarts. EVERY vote request is executed three times: normally, and in two sibling branches on a copy of the directory - rename refused (crash before persist) and panic injected right after the rename (crash after persist, before reply) - each followed by a restart from that image. Oracle = reference model of the term file: per term at most one non-zero vote ever durable, a durable vote never forgotten, disk term never decreases, reply 'success' for (T,C) => disk reads exactly (T,C) at that instant, reply term / term after restart never below any reported term, memory equals disk after every call, refused rename leaves disk unchanged. non-trivial: sequence holds >=2 requests for one term from different candidates, or a restart; distinct by hash of the op/result trace",
        "assumptions": ["voter states are produced with the package's own setters (setTerm, setVotedFor, appendEntry) plus direct assignment of the volatile leader/state fields, i.e. states a running node reaches",
                        "crash = process kill at the two points of the persist sequence (before rename via the package's grantingVote test seam, after rename via the verif hook)"],
        "quick": {"checks": 700, "timeout": 300, "shrinktime": "10s", "gomaxprocs": 1},
        "thorough": {"checks": 15000, "timeout": 2400, "shrinktime": "30s", "gomaxprocs": 1},
    },
    "C13": {
        "pkg": "log", "test": "TestVerif_C13", "deciding": ["logmodel", "no-crash"], "level": "exploration",
        "replay_test": "TestVerif_LogReplay",
        "rule": "cases = rapid-generated operation sequences on one log directory (SegmentSize in {1024,2048,4096,8192,16384}): fill phase 0..80 appends, then 1..40 ops from Append(size in {0,1,8,..,seg-25,seg-24,seg-23,3*seg, random small}), Commit, CommitN, Get, GetN (multi-segment), Contains, CanLTE+RemoveLTE, RemoveGTE, Reset, Close+Open (same/other SegmentSize), ViewAt, concurrent view readers while appending; indexes drawn relative to every boundary (0, prev, prev+-1, last, last+1, last+2, every segment file boundary +-1). Oracle = reference model (prev, [][]byte): every return value (bytes of Get, concatenation of GetN, Contains, PrevIndex/LastIndex/Count after every op, ErrNotFound at/below prev, documented panic beyond last, ErrExceedsSegmentSize exactly when the tail segment is empty and the entry does not fit), RemoveLTE result == CanLTE reported before, <= max(i, old prev) and == lowest segment file name in the directory, views return the model bytes for their whole range (Get and GetN) while 1-4 reader goroutines re-read them during appends. non-trivial: >=2 segments (or a roll-over) and >=1 removal or reopen; distinct by hash of the op list",
        "assumptions": ["views are used as documented: discarded after RemoveLTE/RemoveGTE/Reset/Close", "entry payloads carry a unique sequence number (sizes < 8 bytes cannot)"],
        "quick": {"checks": 1500, "timeout": 300, "shrinktime": "10s", "gomaxprocs": 2, "variants": [{"race": False, "share": 0.75}, {"race": True, "share": 0.25, "scale": 0.2}]},
        "thorough": {"checks": 20000, "timeout": 2400, "shrinktime": "30s", "gomaxprocs": 2, "variants": [{"race": False, "share": 0.75}, {"race": True, "share": 0.25, "scale": 0.2}]},
    },
    "C14": {
        "pkg": "log", "test": "TestVerif_C14", "deciding": ["logmodel", "no-crash"], "level": "fault_enumeration",
        "replay_test": "TestVerif_LogReplay",
        "rule": "cases = rapid-generated operation sequences on one log directory (SegmentSize in {1024,2048,4096,8192,16384}): fill phase 0..80 appends, then 1..40 ops from Append(size in {0,1,8,..,seg-25,seg-24,seg-23,3*seg, random small}), Commit, CommitN, Get, GetN (multi-segment), Contains, CanLTE+RemoveLTE, RemoveGTE, Reset, Close+Open (same/other SegmentSize), ViewAt, concurrent view readers while appending; indexes drawn relative to every boundary (0, prev, prev+-1, last, last+1, last+2, every segment file boundary +-1) (mutating ops weighted up). Fault enumeration: at EVERY hook point hit inside every operation (segment.sync after 1st msync / after header store / after 2nd msync, removeGTE after header store, Append roll-over after Commit and after the new segment, RemoveLTE/RemoveGTE/Reset after each file removal and after re-creation, createSegment after create/truncate/write) a kill image (all files as they read at that instant) is taken, and for segments >= 8 KiB always, else 1 in 4, a power-loss image (per 4 KiB page either the content at the last msync/fsync or the current content). Oracle per image: Open succeeds; every visible entry equals the model's bytes at that index in the state before or after the interrupted operation; every entry committed before the operation and not removed by it is present. non-trivial: >=1 image taken strictly inside an operation; distinct by hash of the op list",
        "assumptions": ["process-kill model: completed file operations survive; power-loss model: only msync'ed/fsync'ed page contents are guaranteed, directory operations are kept in program order (directory-entry loss is not modelled)"],
        "quick": {"checks": 700, "timeout": 300, "shrinktime": "10s", "gomaxprocs": 1},
        "thorough": {"checks": 12000, "timeout": 2400, "shrinktime": "30s", "gomaxprocs": 1},
    },
    "C20": {
        "pkg": "raft", "test": "TestVerif_C20", "deciding": ["identity", "lock", "no-crash"], "level": "exploration",
        "rule": "cases (isolation) = two 3-node clusters with overlapping node ids on one simulated network inside a synctest bubble; every node has a harness Resolver whose table the schedule scrambles (any node id -> any of the 6 addresses, incl. the same node id of the other cluster), connections are severed to force re-dials, updates flow in both clusters. Wire oracle on every connection: a handshake naming an identity different from the listener's is answered with identityMismatch and nothing else is ever written on that connection by either side; no protocol request is written before the handshake succeeded; no request crosses clusters; every command applied / every log entry of a node belongs to its own cluster. cases (lock) = rapid sequences of SetIdentity(same|other|zero), New, Serve (several instances on one directory), Shutdown inside a bubble; model: at most one Serve holds the directory, later ones return ErrLockExists, SetIdentity while served returns ErrLockExists, stored identity never changes once set (the error value of a conflicting SetIdentity is not judged). non-trivial: >=1 mismatching and >=1 matching handshake (isolation) / a refused second Serve or conflicting SetIdentity (lock); distinct by hash of the action list",
        "assumptions": ["both clusters run this library", "stale lock files after a kill are an operator matter and not generated"],
        "quick": {"checks": 60, "timeout": 300, "shrinktime": "10s", "gomaxprocs": 2},
        "thorough": {"checks": 1500, "timeout": 2400, "shrinktime": "30s", "gomaxprocs": 2},
    },
}
