"""Per-property check configuration used by ./check."""

VSIM_ASSUME = [
    "network is TCP-like: per-connection FIFO byte streams, arbitrary delay, connection loss, refused dials; no in-connection reordering/duplication (the code pairs responses by FIFO order)",
    "crash = process kill: directory image copied at the crash instant, unflushed mmap log tail visible only up to the flushed header count; stale lock file removed (documented operator step)",
    "timers may fire early (poke) and virtual time may advance arbitrarily; goroutine interleaving inside one node's reaction to one stimulus is the Go scheduler's",
    "FSM and storage do not fail; API used as documented",
]

def vsim(test, deciding, rule, quick_checks, thorough_checks, level="exploration", extra_assume=(), shards=None, timeout_q=420, timeout_t=3000, **kw):
    d = {
        "pkg": "raft", "test": test, "deciding": deciding, "rule": rule, "level": level,
        "assumptions": VSIM_ASSUME + list(extra_assume),
        "quick": {"checks": quick_checks, "timeout": timeout_q, "shrinktime": "15s"},
        "thorough": {"checks": thorough_checks, "timeout": timeout_t, "shrinktime": "60s"},
    }
    if shards:
        d["quick"]["shards"] = shards
        d["thorough"]["shards"] = shards
    d.update(kw)
    return d

def warn_classes(required):
    def f(ev):
        out = []
        n = max(1, ev["evaluations"])
        for cls, minfrac in required.items():
            frac = ev["classes"].get(cls, 0) / n
            if frac < minfrac:
                out.append("class %s in %.2f%% of cases (< %.2f%%)" % (cls, 100 * frac, 100 * minfrac))
        return out
    return f

CHECKS = {
    "C01": vsim("TestVerif_C01", ["leader-unique"],
        "cases = rapid-generated schedules (init 2-5 voters, warm-up, 10-50 actions: timer pokes, selective delivery, elections, severs, isolation, crash/restart, membership/transfer actions) on real nodes in a synctest bubble; non-trivial: >=2 elections started and (>=2 leaders elected or a fault happened); distinct by hash of action kinds+nodes, leader-per-term ledger and max commit index",
        400, 4000, warn=warn_classes({"leader-elected": 0.5, "fault": 0.3})),
    "C02": vsim("TestVerif_C02", ["leader-complete", "commit-stable"],
        "cases = generated schedules (profiles repl/member/snap); non-trivial: >=1 entry committed beyond bootstrap and >=2 leaders elected; distinct by trace hash",
        400, 4000),
    "C03": vsim("TestVerif_C03", ["fsm-agreement", "exactly-once"],
        "cases = generated schedules (profiles repl/snap/client) with recording FSMs; non-trivial: >=5 updates committed and (leader change or FSM restore); distinct by trace hash",
        400, 4000),
    "C04": vsim("TestVerif_C04", ["log-matching", "leader-append-only"],
        "cases = generated schedules (profiles repl/elect); non-trivial: some node truncated >=1 entry, or >=2 leaders with >=3 entries committed; distinct by trace hash",
        400, 4000),
}
